#!/venv/bin/python -B
"""Regenerates MANIFEST.json from the check modules present (keeps it valid at all times)."""
import importlib, json, os, sys
sys.path.insert(0, os.path.dirname(os.path.abspath(__file__)))
sys.dont_write_bytecode = True

TEXT = {
 "C01": ("typed-outcome, error-list, matcher-budget and file-audit monitors on the real Parser.parse / Compiler.compile / GherkinEvents.enum over hostile, noisy, rendered, fault-injected and corpus inputs in both error modes; logical-clock scaling monitor (matcher calls, executed lines) on 19 doubling families", "7/C01"),
 "C02": ("transition table observed at run time by driving the real Parser.match_token over every (state, token kind, look-ahead outcome), compared exactly with the consensus of the five sibling parsers and by bisimulation with an automaton derived from gherkin.berp; all token-kind sequences up to a bound through the real Parser.parse against the automaton; derivation monitor on builder events", "7/C02"),
 "C03": ("AST of the real parser compared with the document model the text was rendered from (all 80 dialects), nothing-invented monitor, derivation monitor, golden corpus ASTs", "7/C03"),
 "C04": ("renderer-recorded positions vs reported locations; location-slice monitor on every accepted document; simulator-predicted error positions; reference splitter columns on enumerated rows", "7/C04"),
 "C05": ("complete enumeration of dialect x keyword x role x layout through the real matcher and parser against keyword-table rules; foreign-keyword pairs; header spellings and placement; byte comparison of the packaged table", "7/C05"),
 "C06": ("real Compiler.compile vs reference compiler on generated AST dictionaries and parsed documents: pickle count, order, name, uri, language, astNodeIds", "7/C06"),
 "C07": ("real Compiler.compile vs reference compiler: pickle steps (background scoping, order, text, arguments), input not modified", "7/C07"),
 "C08": ("real Compiler.compile vs reference compiler: pickle tags over four levels, input not modified", "7/C08"),
 "C09": ("exhaustive header/value/template triples over an adversarial alphabet plus sampled hostile ASTs and parsed outlines against literal str.replace", "7/C09"),
 "C10": ("exhaustive keyword-type sequences x background splits x plain/outline against the running-last rule; all 80 dialects through the real parser", "7/C10"),
 "C11": ("id monitors on the real IdGenerator.get_next_id: density, canonical order (R5), uniqueness, reference resolution; stream histories with id offsets", "7/C11"),
 "C12": ("exhaustive row strings over the splitter's character classes through the real GherkinLine and full parses against a reference splitter; escape round trip; ragged tables with known first deviating row", "7/C12"),
 "C13": ("doc strings with every kind of Gherkin-looking content line: AST content vs intent, matcher-state opacity hook, continuation equality with the empty doc string", "7/C13"),
 "C14": ("every (state, unexpected kind) pair as real text; noisy and fault-injected documents against a simulator built on the sibling transition tables (error text, position, order, de-duplication, 11-cap, stop mode); bad corpus; parseError envelopes", "7/C14"),
 "C15": ("reuse-vs-fresh histories (all ordered pairs/triples of a state-perturbing pool), fresh-state monitor at every parse start, controlled scheduler gating TokenScanner.read over enumerated interleavings, free-running threads with yield injection, compile purity/determinism", "7/C15"),
 "C16": ("metamorphic relations (CRLF, file vs string, trailing blanks, indentation, blank/comment insertion, final line break) over corpus, rendered, noisy and fault-injected documents at every admissible position", "7/C16"),
 "C17": ("envelope sequences of the real GherkinEvents.enum vs documented order for all 8 option triples, message-shape validator, golden corpus envelopes, multi-source streams vs solo runs, CLI output", "7/C17"),
 "C18": ("line-accounting monitor at the scanner/builder boundary on every parse; all tag/comment/blank arrangements before Examples/Scenario/Rule/EOF/junk at kind level and as real text; queue-discipline hook; golden token listings", "7/C18"),
 "C19": ("complete enumeration of dialect x keyword x header depth / bullet x spacing x indentation through the real Markdown matcher's line-level methods; table indentation window; backtick tags", "7/C19"),
}

def main():
    here = os.path.dirname(os.path.abspath(__file__))
    checks = []
    na = []
    for i in range(1, 20):
        cid = "C%02d" % i
        try:
            mod = importlib.import_module("vf.checks." + cid.lower())
        except ModuleNotFoundError:
            na.append({"property_id": cid, "reason": "check not built yet (work in progress; runtime monitoring applies, see DESIGN.md section 7)"})
            continue
        text, ref = TEXT[cid]
        checks.append({
            "property_id": cid,
            "quick_cmd": "./run.py %s --tier quick" % cid,
            "thorough_cmd": "./run.py %s --tier thorough" % cid,
            "evidence_file": "/verif/evidence/%s.json" % cid,
            "replay_cmd_template": "./run.py %s --replay {path}" % cid,
            "engine": "vf",
            "level_claimed": {"category": getattr(mod, "LEVEL", "exploration"),
                              "text": "Runtime monitoring: " + text + ". Held on the executions counted in the evidence; finite sub-spaces that were enumerated completely are marked exhaustive there.",
                              "design_ref": "DESIGN.md section " + ref},
            "level_note": "; ".join(getattr(mod, "ASSUMPTIONS", [])) or "oracles are self-checked against the golden corpus by setup_cmd",
            "technique": getattr(mod, "TECHNIQUE", "runtime monitoring: recording wrappers on the real functions + deterministic oracle over the observed events"),
        })
    man = {
        "version": 1,
        "setup_cmd": "./run.py --selfcheck",
        "hooks": {
            "guard": "GHERKIN_VERIF_HOOKS",
            "enable": "no source hooks: checks import /repo/python's working tree fresh and install recording wrappers from outside (vf/probe.py); the guard variable is set by the harness only",
            "baseline_off_cmd": "cd /repo && /venv/bin/python -m pytest -ra -q -p no:cacheprovider --timeout=900 --continue-on-collection-errors",
            "source_commits": [],
            "add_only": True,
        },
        "engines": [{"name": "vf", "path": "/verif/vf", "serves_properties": [c["property_id"] for c in checks],
                     "kind_free_text": "Python harness: probes (monkey-patched recording wrappers, builder proxy, audit hook, sys.monitoring), reference oracles (grammar automaton from gherkin.berp, sibling tables, document model, reference compiler/splitter/message shapes), workload generators, sharded runner"}],
        "checks": checks,
        "notes": "Exit 0 = held on everything explored (KNOWN-FINDING lines for listed findings), 1 = VIOLATION, 2 = INCONCLUSIVE (never expected on the unchanged tree). Genuine defects repaired in /repo as 'fix:' commits are listed as fixed in known_findings.json.",
        "not_applicable": na,
    }
    with open(os.path.join(here, "MANIFEST.json"), "w") as f:
        json.dump(man, f, indent=1)
    print("MANIFEST.json: %d checks, %d not yet built" % (len(checks), len(na)))

main()
