#!/venv/bin/python -B
"""Prints the table of DESIGN.md 12.7 (workload families per check and tier) from the plan() of every check module."""
import importlib
import os
import sys
sys.path.insert(0, os.path.dirname(os.path.abspath(__file__)))
from vf import common
common.load_repo()
print("| check | quick | thorough |")
print("|---|---|---|")
for k in range(1, 20):
    cid = "C%02d" % k
    mod = importlib.import_module("vf.checks.c%02d" % k)
    cells = []
    for tier in ("quick", "thorough"):
        fams = {}
        for s in mod.plan(tier, 0):
            fams[s["family"]] = fams.get(s["family"], 0) + int(s.get("n", 1))
        cells.append(", ".join("%s:%d" % kv for kv in fams.items()))
    print("| %s | %s | %s |" % (cid, cells[0], cells[1]))
