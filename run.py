#!/venv/bin/python -B
"""Entry point of the verification machinery.

  ./run.py C07 [--tier quick|thorough] [--seed N]     run one check
  ./run.py C07 --replay replays/C07-xxxx.json          re-execute one recorded case
  ./run.py --selfcheck                                 setup_cmd: oracles vs golden corpus etc.
  ./run.py --all [--tier quick]                        run every check (convenience)
"""
import argparse
import os
import sys

sys.dont_write_bytecode = True
sys.path.insert(0, os.path.dirname(os.path.abspath(__file__)))


def main():
    if len(sys.argv) >= 3 and sys.argv[1] == "--shard":
        from vf import runner
        runner.shard_main(sys.argv[2])
        return 0
    ap = argparse.ArgumentParser()
    ap.add_argument("check", nargs="?")
    ap.add_argument("--tier", default=os.environ.get("VERIF_TIER", "quick"), choices=["quick", "thorough"])
    ap.add_argument("--seed", type=int, default=int(os.environ.get("VERIF_SEED", "0") or 0))
    ap.add_argument("--replay")
    ap.add_argument("--selfcheck", action="store_true")
    ap.add_argument("--all", action="store_true")
    ap.add_argument("-v", "--verbose", action="store_true")
    a = ap.parse_args()
    from vf import runner
    if a.selfcheck:
        from vf import selfcheck
        return selfcheck.main()
    if a.all:
        rc = 0
        for cid in runner.CHECK_IDS:
            rc = max(rc, runner.run_check(cid, a.tier, a.seed, a.verbose))
        return rc
    if not a.check:
        ap.error("check id required")
    cid = a.check.upper()
    if a.replay:
        return runner.run_replay(cid, a.replay)
    return runner.run_check(cid, a.tier, a.seed, a.verbose)


if __name__ == "__main__":
    sys.exit(main())
