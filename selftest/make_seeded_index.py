#!/venv/bin/python -B
"""Writes seeded/INDEX.md from the meta.json files (what each seeded change needs and which checks caught it)."""
import glob, json, os
HERE = os.path.dirname(os.path.abspath(__file__))
rows = []
for mp in sorted(glob.glob(os.path.join(HERE, "..", "seeded", "*", "meta.json"))):
    m = json.load(open(mp))
    d = os.path.basename(os.path.dirname(mp))
    v = m.get("verified_here", {})
    title = ""
    notes = os.path.join(os.path.dirname(mp), "NOTES.md")
    if os.path.exists(notes):
        for line in open(notes, encoding="utf-8"):
            if line.strip():
                title = line.strip().lstrip("# ").strip()[:140]
                break
    rows.append("| %s | %s | %s | %s | %s / %s | %s |" % (
        d, m.get("property"), title.replace("|", "\\|"), v.get("baseline_tests_with_change", "?"),
        v.get("demo_without_change_exit", "?"), v.get("demo_with_change_exit", "?"), (" ".join(v.get("caught_by", [])) or "-") if not m.get("not_claimed") else "not claimed: " + m["not_claimed"][:160].replace("|", "/")))
with open(os.path.join(HERE, "..", "seeded", "INDEX.md"), "w", encoding="utf-8") as f:
    f.write("# Seeded changes (written by independent sub-agents; re-verified by selftest/run_mutants.py --write-meta)\n\n")
    f.write("Columns: directory, property it breaks, first line of the author's notes, baseline tests with the change, demo exit code without / with the change, checks (quick tier) that reported a VIOLATION.\n\n")
    f.write("| change | property | summary | baseline tests | demo | caught by |\n|---|---|---|---|---|---|\n")
    f.write("\n".join(rows) + "\n")
print(len(rows), "entries")
