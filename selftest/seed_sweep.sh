#!/bin/bash
# Silence on the unchanged tree: every check, given tier, several seeds, fresh processes.
# usage: selftest/seed_sweep.sh quick "1 2 3 7 42 2026" [checks...]
tier=${1:-quick}; seeds=${2:-"1 2 3 7 42 2026"}; shift 2
checks=${@:-$(seq -f "C%02g" 1 19)}
export VERIF_OUT_DIR=${VERIF_OUT_DIR:-/tmp/vf-sweep-out}
bad=0
for s in $seeds; do for c in $checks; do
  out=$(cd "$(dirname "$0")/.." && ./run.py $c --tier $tier --seed $s 2>&1 | grep -E "^(RESULT|VIOLATION|INCONCLUSIVE)")
  rc=$(echo "$out" | grep -c "^RESULT held-on-observed")
  if [ "$rc" != "1" ]; then bad=$((bad+1)); echo "ALARM seed=$s $c"; echo "$out" | head -5 | cut -c1-400; fi
done; echo "seed $s done"; done
echo "sweep finished: $bad alarms"; rm -rf "$VERIF_OUT_DIR"
