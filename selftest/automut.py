#!/venv/bin/python -B
"""Automatic first-order mutation of python/gherkin/**.py as a strength measure for the checks.

  selftest/automut.py list [--per-file N] [--seed S]         print the sampled mutants
  selftest/automut.py run  [--per-file N] [--seed S] [--out FILE] [--only substr]
        for each sampled mutant: write it into a scratch copy of /repo, run the 30 baseline tests (mutants that fail
        them are 'killed by the repository's tests' and not interesting), then run the quick tier of the checks relevant
        for the mutated file, cheapest first, until one reports a VIOLATION.  Survivors are listed at the end: each is
        either an equivalent mutant or a blind spot to look at.

Mutation operators (AST level, one change per mutant): comparison operator swap, and/or swap, negated condition,
integer constant +-1, True/False swap, +/- swap, slice bound +-1, statement deletion (expression statements, assignments,
augmented assignments -> pass), `continue`/`break` swap, return-state change in the generated parser.
"""
import ast
import copy
import json
import os
import random
import shutil
import subprocess
import sys
import tempfile
import time

HERE = os.path.dirname(os.path.abspath(__file__))
VERIF = os.path.dirname(HERE)
REPO = "/repo"
FILES = {
    "python/gherkin/pickles/compiler.py": ["C09", "C10", "C06", "C07", "C08", "C11", "C17", "C01"],
    "python/gherkin/ast_builder.py": ["C12", "C13", "C03", "C11", "C04", "C14", "C17", "C18", "C15", "C01"],
    "python/gherkin/ast_node.py": ["C13", "C03", "C12", "C11"],
    "python/gherkin/gherkin_line.py": ["C12", "C05", "C13", "C04", "C14", "C03", "C19", "C01"],
    "python/gherkin/token_matcher.py": ["C05", "C13", "C14", "C04", "C03", "C10", "C16", "C18", "C15", "C01"],
    "python/gherkin/token_scanner.py": ["C14", "C04", "C18", "C16", "C03", "C01"],
    "python/gherkin/token.py": ["C14", "C18", "C01"],
    "python/gherkin/errors.py": ["C14", "C05", "C04", "C17", "C01"],
    "python/gherkin/parser.py": ["C02", "C14", "C18", "C15", "C03", "C01"],
    "python/gherkin/stream/gherkin_events.py": ["C17", "C11", "C14", "C01"],
    "python/gherkin/stream/source_events.py": ["C17", "C16"],
    "python/gherkin/stream/id_generator.py": ["C11", "C17", "C15"],
    "python/gherkin/token_matcher_markdown.py": ["C19", "C15"],
    "python/gherkin/dialect.py": ["C05", "C19", "C10", "C03"],
    "python/gherkin/token_formatter_builder.py": ["C18"],
}
CMP = {ast.Eq: ast.NotEq, ast.NotEq: ast.Eq, ast.Lt: ast.LtE, ast.LtE: ast.Lt, ast.Gt: ast.GtE, ast.GtE: ast.Gt,
       ast.In: ast.NotIn, ast.NotIn: ast.In, ast.Is: ast.IsNot, ast.IsNot: ast.Is}


def mutants_of(path):
    src = open(os.path.join(REPO, path), encoding="utf-8").read()
    tree = ast.parse(src)
    sites = []          # (description, function applying the mutation to a copied tree's matching node)
    nodes = list(ast.walk(tree))
    for idx, node in enumerate(nodes):
        ln = getattr(node, "lineno", 0)
        if isinstance(node, ast.Compare) and len(node.ops) == 1 and type(node.ops[0]) in CMP:
            sites.append((idx, "L%d compare %s -> %s" % (ln, type(node.ops[0]).__name__, CMP[type(node.ops[0])].__name__),
                          lambda n: setattr(n, "ops", [CMP[type(n.ops[0])]()])))
        if isinstance(node, ast.BoolOp):
            sites.append((idx, "L%d %s -> %s" % (ln, type(node.op).__name__, "Or" if isinstance(node.op, ast.And) else "And"),
                          lambda n: setattr(n, "op", ast.Or() if isinstance(n.op, ast.And) else ast.And())))
        if isinstance(node, (ast.If, ast.While)) and not isinstance(node.test, ast.Constant):
            sites.append((idx, "L%d negate condition" % ln, lambda n: setattr(n, "test", ast.UnaryOp(op=ast.Not(), operand=n.test))))
        if isinstance(node, ast.Constant) and isinstance(node.value, bool):
            sites.append((idx, "L%d %s -> %s" % (ln, node.value, not node.value), lambda n: setattr(n, "value", not n.value)))
        elif isinstance(node, ast.Constant) and isinstance(node.value, int) and not isinstance(node.value, bool):
            sites.append((idx, "L%d int %d -> %d" % (ln, node.value, node.value + 1), lambda n: setattr(n, "value", n.value + 1)))
            if node.value > 0:
                sites.append((idx, "L%d int %d -> %d" % (ln, node.value, node.value - 1), lambda n: setattr(n, "value", n.value - 1)))
        if isinstance(node, ast.BinOp) and isinstance(node.op, (ast.Add, ast.Sub)) and not (
                isinstance(node.left, ast.Constant) and isinstance(node.left.value, str)):
            sites.append((idx, "L%d %s -> %s" % (ln, type(node.op).__name__, "Sub" if isinstance(node.op, ast.Add) else "Add"),
                          lambda n: setattr(n, "op", ast.Sub() if isinstance(n.op, ast.Add) else ast.Add())))
        if isinstance(node, (ast.Expr, ast.Assign, ast.AugAssign)) and not (
                isinstance(node, ast.Expr) and isinstance(node.value, ast.Constant)):
            sites.append((idx, "L%d delete statement `%s`" % (ln, ast.unparse(node)[:50]), "DELETE"))
        if isinstance(node, ast.Continue):
            sites.append((idx, "L%d continue -> break" % ln, "BREAK"))
        if isinstance(node, ast.Break):
            sites.append((idx, "L%d break -> continue" % ln, "CONTINUE"))
    return src, tree, sites


def apply(tree, idx, action):
    t = copy.deepcopy(tree)
    nodes = list(ast.walk(t))
    node = nodes[idx]
    if action in ("DELETE", "BREAK", "CONTINUE"):
        new = {"DELETE": ast.Pass(), "BREAK": ast.Break(), "CONTINUE": ast.Continue()}[action]
        for parent in nodes:
            for field, value in ast.iter_fields(parent):
                if isinstance(value, list) and node in value:
                    value[value.index(node)] = ast.copy_location(new, node)
                    ast.fix_missing_locations(t)
                    return ast.unparse(t)
        return None
    action(node)
    ast.fix_missing_locations(t)
    return ast.unparse(t)


def sample(per_file, seed):
    rnd = random.Random(seed)
    out = []
    for path in FILES:
        src, tree, sites = mutants_of(path)
        if path.endswith("parser.py"):
            # the generated state functions are huge and uniform: sample separately from the hand-written parts
            hand = [s for s in sites if int(s[1].split()[0][1:]) < 235 or int(s[1].split()[0][1:]) > 2750]
            gen = [s for s in sites if s not in hand]
            chosen = rnd.sample(hand, min(per_file, len(hand))) + rnd.sample(gen, min(per_file, len(gen)))
        else:
            chosen = rnd.sample(sites, min(per_file, len(sites)))
        for idx, desc, action in chosen:
            try:
                new = apply(tree, idx, action)
                if new is None:
                    continue
                compile(new, path, "exec")
            except Exception:
                continue
            out.append({"file": path, "desc": desc, "source": new})
    return out


def make_scratch():
    d = tempfile.mkdtemp(prefix="vf-amut-")
    shutil.copytree(os.path.join(REPO, "python"), os.path.join(d, "python"), ignore=shutil.ignore_patterns("__pycache__", ".pytest_cache"))
    for f in ("gherkin.berp", "gherkin-languages.json", "README.md", "MARKDOWN_WITH_GHERKIN.md"):
        shutil.copy(os.path.join(REPO, f), os.path.join(d, f))
    for sub in ("testdata", "ruby", "go", "java", "c", "javascript"):
        os.symlink(os.path.join(REPO, sub), os.path.join(d, sub))
    return d


def run(mutants, out_path):
    results = []
    d = make_scratch()
    outdir = tempfile.mkdtemp(prefix="vf-amut-out-")
    try:
        for k, m in enumerate(mutants):
            target = os.path.join(d, m["file"])
            orig = open(target, encoding="utf-8").read()
            open(target, "w", encoding="utf-8").write(m["source"])
            r = {"file": m["file"], "desc": m["desc"]}
            try:
                t = subprocess.run(["/venv/bin/python", "-m", "pytest", "-q", "-x", "-p", "no:cacheprovider", "python/test"], cwd=d,
                                   capture_output=True, text=True, timeout=300, env=dict(os.environ, PYTHONDONTWRITEBYTECODE="1"))
                if t.returncode != 0:
                    r["status"] = "killed-by-repo-tests"
                else:
                    r["status"] = "survived"
                    r["tried"] = []
                    for c in FILES[m["file"]]:
                        t0 = time.time()
                        p = subprocess.run([os.path.join(VERIF, "run.py"), c, "--tier", "quick"], cwd=VERIF, capture_output=True, text=True,
                                           timeout=3600, env=dict(os.environ, VERIF_REPO=d, VERIF_OUT_DIR=outdir))
                        r["tried"].append([c, p.returncode, round(time.time() - t0, 1)])
                        if p.returncode == 1:
                            r["status"] = "killed-by-" + c
                            line = [l for l in p.stdout.splitlines() if l.startswith("VIOLATION")]
                            r["first"] = line[0][:220] if line else ""
                            break
            except subprocess.TimeoutExpired:
                r["status"] = "timeout"
            finally:
                open(target, "w", encoding="utf-8").write(orig)
            results.append(r)
            print(json.dumps(r))
            sys.stdout.flush()
            if out_path:
                json.dump(results, open(out_path, "w"), indent=1)
    finally:
        shutil.rmtree(d, ignore_errors=True)
        shutil.rmtree(outdir, ignore_errors=True)
    surv = [r for r in results if r["status"] == "survived"]
    rel = [r for r in results if r["status"] != "killed-by-repo-tests"]
    print("SUMMARY: %d mutants, %d killed by the repository's tests, %d left for the checks, %d killed by a check, %d survived" % (
        len(results), len(results) - len(rel), len(rel), sum(1 for r in rel if r["status"].startswith("killed-by-C")), len(surv)))
    for r in surv:
        print("SURVIVOR %s %s" % (r["file"], r["desc"]))


def main():
    a = sys.argv[1:]
    per = int(a[a.index("--per-file") + 1]) if "--per-file" in a else 8
    seed = int(a[a.index("--seed") + 1]) if "--seed" in a else 0
    out = a[a.index("--out") + 1] if "--out" in a else None
    only = a[a.index("--only") + 1] if "--only" in a else None
    ms = sample(per, seed)
    if only:
        ms = [m for m in ms if only in m["file"] or only in m["desc"]]
    if a and a[0] == "list":
        for m in ms:
            print(m["file"], m["desc"])
        print(len(ms), "mutants")
        return 0
    run(ms, out)
    return 0


if __name__ == "__main__":
    sys.exit(main())
