#!/venv/bin/python -B
"""Reach of the workloads over python/gherkin/**: runs the given checks (default: all, quick tier) with VF_REACH_DIR
set, merges what the shards recorded and lists, per file, executable lines no shard executed and branches of which
only one side was taken.  What is listed is not driven by any workload, so no monitor can have an opinion on it.

  selftest/reach.py [--tier quick|thorough] [--out FILE] [C01 C02 ...]
"""
import glob
import json
import os
import shutil
import subprocess
import sys
import tempfile

HERE = os.path.dirname(os.path.abspath(__file__))
VERIF = os.path.dirname(HERE)
REPO = os.environ.get("VERIF_REPO", "/repo")
PKG = os.path.join(REPO, "python", "gherkin") + os.sep


def executable_lines(path):
    src = open(path, encoding="utf-8").read()
    code = compile(src, path, "exec")
    out = set()
    todo = [code]
    while todo:
        c = todo.pop()
        for _, _, ln in c.co_lines():
            if ln is not None and ln > 0:
                out.add(ln)
        todo += [k for k in c.co_consts if hasattr(k, "co_lines")]
    return out, src.split("\n")


def main():
    a = sys.argv[1:]
    tier = a[a.index("--tier") + 1] if "--tier" in a else "quick"
    out_file = a[a.index("--out") + 1] if "--out" in a else None
    checks = [x for x in a if x.startswith("C") and len(x) == 3] or ["C%02d" % k for k in range(1, 20)]
    d = tempfile.mkdtemp(prefix="vf-reach-")
    o = tempfile.mkdtemp(prefix="vf-reach-out-")
    try:
        for c in checks:
            p = subprocess.run([os.path.join(VERIF, "run.py"), c, "--tier", tier], cwd=VERIF, capture_output=True, text=True,
                               env=dict(os.environ, VF_REACH_DIR=d, VERIF_OUT_DIR=o))
            res = [l for l in p.stdout.splitlines() if l.startswith("RESULT")]
            print(c, p.returncode, res[0][:120] if res else "")
        lines, arcs = set(), set()
        for f in glob.glob(os.path.join(d, "*.json")):
            j = json.load(open(f))
            lines |= {tuple(x) for x in j["lines"]}
            arcs |= {tuple(x) for x in j["arcs"]}
    finally:
        shutil.rmtree(d, ignore_errors=True)
        shutil.rmtree(o, ignore_errors=True)
    report = {"tier": tier, "checks": checks, "files": {}}
    for path in sorted(glob.glob(PKG + "**/*.py", recursive=True)):
        rel = path[len(PKG):]
        ex, text = executable_lines(path)
        hit = {ln for f, ln in lines if f == rel}
        missing = sorted(ex - hit)
        by_branch = {}
        for f, qual, sl, so, dl in arcs:
            if f == rel:
                by_branch.setdefault((qual, sl, so), set()).add(dl)
        one_sided = sorted((sl, qual, sorted(ds)) for (qual, sl, so), ds in by_branch.items() if len(ds) == 1)
        report["files"][rel] = {"executable": len(ex), "executed": len(ex & hit), "missing": missing,
                                "branches_seen": len(by_branch), "one_sided": one_sided}
        print("%-34s lines %4d/%4d  branches %4d, one-sided %3d" % (rel, len(ex & hit), len(ex), len(by_branch), len(one_sided)))
        if rel != "parser.py":
            for ln in missing:
                print("      not executed  L%-4d %s" % (ln, text[ln - 1].strip()[:110]))
            for sl, qual, ds in one_sided:
                print("      one-sided     L%-4d -> L%s  %s" % (sl, ds[0], text[sl - 1].strip()[:100]))
    if out_file:
        json.dump(report, open(out_file, "w"), indent=1)
    return 0


if __name__ == "__main__":
    sys.exit(main())
