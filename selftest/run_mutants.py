#!/venv/bin/python -B
"""Self-validation (DESIGN.md section 10): apply a seeded break to a scratch copy of the
repository, confirm the copy still passes the 30 baseline tests, run the quick tier of the
relevant checks against the copy (VERIF_REPO) and expect a VIOLATION for the right property.

  selftest/run_mutants.py [name-substring ...]      # patches: selftest/mutants/*.patch and seeded/*/patch.diff
Each patch starts with header lines '# property: C07[,C08]' (checks expected to fire) and '# needs: ...'.
The scratch copy lives under /tmp and is removed as soon as the run is over.
"""
import glob, json, os, re, shutil, subprocess, sys, tempfile, time

HERE = os.path.dirname(os.path.abspath(__file__))
VERIF = os.path.dirname(HERE)
REPO = "/repo"


def make_scratch():
    d = tempfile.mkdtemp(prefix="vf-mut-")
    shutil.copytree(os.path.join(REPO, "python"), os.path.join(d, "python"), ignore=shutil.ignore_patterns("__pycache__", ".pytest_cache"))
    for f in ("gherkin.berp", "gherkin-languages.json", "README.md", "MARKDOWN_WITH_GHERKIN.md"):
        shutil.copy(os.path.join(REPO, f), os.path.join(d, f))
    for sub in ("testdata", "ruby", "go", "java", "c", "javascript"):
        os.symlink(os.path.join(REPO, sub), os.path.join(d, sub))
    return d


def header(patch):
    props, tier = [], "quick"
    meta = os.path.join(os.path.dirname(patch), "meta.json")
    if os.path.exists(meta):
        m = json.load(open(meta))
        return m.get("checks") or [m["property"]], m.get("tier", "quick")
    for line in open(patch, encoding="utf-8"):
        m = re.match(r"#\s*property:\s*(.*)", line)
        if m:
            props = [x.strip() for x in m.group(1).split(",") if x.strip()]
        m = re.match(r"#\s*tier:\s*(\w+)", line)
        if m:
            tier = m.group(1)
    return props, tier


def run(patch, checks=None, keep=False):
    props, tier = header(patch)
    checks = checks or props
    d = make_scratch()
    out = tempfile.mkdtemp(prefix="vf-mut-out-")
    res = {"patch": os.path.relpath(patch, VERIF), "expected": props}
    demo = os.path.join(os.path.dirname(patch), "demo.py")
    def run_demo():
        r = subprocess.run(["/venv/bin/python", "-B", demo], cwd=os.path.join(d, "python"), capture_output=True, text=True,
                           env=dict(os.environ, PYTHONPATH=os.path.join(d, "python"), PYTHONDONTWRITEBYTECODE="1"), timeout=600)
        return r.returncode, (r.stdout + r.stderr).strip().splitlines()[-1:] 
    try:
        if os.path.exists(demo):
            res["demo_without_change"] = run_demo()
        p = subprocess.run(["patch", "-p1", "-s", "-d", d, "-i", os.path.abspath(patch)], capture_output=True, text=True)
        if p.returncode != 0:
            res["error"] = "patch does not apply: " + (p.stdout + p.stderr)[-300:]
            return res
        t = subprocess.run(["/venv/bin/python", "-m", "pytest", "-q", "-p", "no:cacheprovider", "python/test"], cwd=d, capture_output=True, text=True,
                           env=dict(os.environ, PYTHONDONTWRITEBYTECODE="1"))
        tail = t.stdout.strip().splitlines()[-1] if t.stdout.strip() else t.stderr[-200:]
        res["baseline_tests"] = tail
        res["baseline_ok"] = t.returncode == 0
        if os.path.exists(demo):
            res["demo_with_change"] = run_demo()
            res["demo_ok"] = res["demo_without_change"][0] == 0 and res["demo_with_change"][0] != 0
        env = dict(os.environ, VERIF_REPO=d, VERIF_OUT_DIR=out)
        res["checks"] = {}
        seeds = [a.split("=", 1)[1].split() for a in sys.argv if a.startswith("--seeds=")]
        if seeds:
            # detection stability: the property's check once per seed
            res["per_seed"] = {}
            for c in checks:
                for sd in seeds[0]:
                    r = subprocess.run([os.path.join(VERIF, "run.py"), c, "--tier", tier, "--seed", sd], cwd=VERIF, capture_output=True, text=True, env=env)
                    res["per_seed"]["%s/seed%s" % (c, sd)] = r.returncode
            res["caught_by"] = sorted({k.split("/")[0] for k, v in res["per_seed"].items() if v == 1})
            res["caught"] = bool(res["caught_by"])
            res["stable"] = all(v == 1 for v in res["per_seed"].values())
            return res
        for c in checks:
            t0 = time.time()
            r = subprocess.run([os.path.join(VERIF, "run.py"), c, "--tier", tier], cwd=VERIF, capture_output=True, text=True, env=env)
            lines = [l for l in r.stdout.splitlines() if l.startswith(("VIOLATION", "INCONCLUSIVE", "KNOWN-FINDING"))]
            res["checks"][c] = {"exit": r.returncode, "wall_s": round(time.time() - t0, 1),
                                "first": (lines[0][:260] if lines else ""), "n_violation_lines": sum(l.startswith("VIOLATION") for l in lines)}
        res["caught_by"] = [c for c, v in res["checks"].items() if v["exit"] == 1]
        res["caught"] = bool(res["caught_by"])
    finally:
        if not keep:
            shutil.rmtree(d, ignore_errors=True)
            shutil.rmtree(out, ignore_errors=True)
    return res


def write_meta(patch, r):
    """Record in seeded/<id>/meta.json what was confirmed here and which checks caught the change."""
    d = os.path.dirname(patch)
    mp = os.path.join(d, "meta.json")
    meta = json.load(open(mp)) if os.path.exists(mp) else {}
    notes = open(os.path.join(d, "NOTES.md"), encoding="utf-8").read() if os.path.exists(os.path.join(d, "NOTES.md")) else ""
    m = re.search(r"^[-*]?\s*\**(?:What (?:is|it) need(?:s|ed)[^\n]*|Needs? to manifest[^\n]*|What it needs[^\n]*)(.*?)(?=^\s*[-*] \**(?:Runs|Run|What still|Demo|`git)|\Z)", notes, re.S | re.M | re.I)
    if m and not meta.get("needs_to_manifest"):
        meta["needs_to_manifest"] = " ".join((m.group(0)).split())[:900]
    meta["verified_here"] = {
        "how": "selftest/run_mutants.py: scratch copy of /repo under /tmp, patch applied, `pytest python/test` (baseline), demo.py without and with the change, then ./run.py <check> --tier quick with VERIF_REPO=<scratch copy>; scratch copy removed",
        "baseline_tests_with_change": r.get("baseline_tests"),
        "demo_without_change_exit": (r.get("demo_without_change") or [None])[0],
        "demo_with_change_exit": (r.get("demo_with_change") or [None])[0],
        "checks_run": {c: {"exit": v["exit"], "first_line": v["first"][:200]} for c, v in r.get("checks", {}).items()},
        "caught_by": r.get("caught_by", []),
    }
    with open(mp, "w") as f:
        json.dump(meta, f, indent=1, ensure_ascii=False)


def main():
    args = [a for a in sys.argv[1:] if not a.startswith("--")]
    allc = "--all-checks" in sys.argv or "--benign" in sys.argv
    patches = sorted(glob.glob(os.path.join(HERE, "mutants", "*.patch")) + glob.glob(os.path.join(VERIF, "seeded", "*", "patch.diff")))
    if "--benign" in sys.argv:
        # behaviour-preserving refactorings: every check must stay silent (exit 0; exit 2 = inconclusive is tolerated and listed)
        patches = sorted(glob.glob(os.path.join(VERIF, "benign", "*", "patch.diff")))
        allc = True
    if args:
        patches = [p for p in patches if any(a in p for a in args)]
    results = []
    for p in patches:
        checks = ["C%02d" % i for i in range(1, 20)] if allc else None
        only = [a.split("=", 1)[1].split(",") for a in sys.argv if a.startswith("--checks=")]
        if only and checks:
            checks = [c for c in checks if c in only[0]]
        r = run(p, checks)
        results.append(r)
        if "--write-meta" in sys.argv and os.path.basename(p) == "patch.diff":
            write_meta(p, r)
        print(json.dumps(r))
        sys.stdout.flush()
    out = [a.split("=", 1)[1] for a in sys.argv[1:] if a.startswith("--matrix=")]
    if out:
        with open(out[0], "w") as f:
            json.dump(results, f, indent=1)
    if "--benign" in sys.argv:
        for r in results:
            alarms = [c for c, v in r.get("checks", {}).items() if v["exit"] == 1]
            inconc = [c for c, v in r.get("checks", {}).items() if v["exit"] == 2]
            print("BENIGN %s: tests=%s alarms=%s inconclusive=%s %s" % (r["patch"], r.get("baseline_tests"), alarms, inconc, r.get("error", "")))
        return 0
    unstable = [r["patch"] for r in results if "stable" in r and not r["stable"]]
    if any("stable" in r for r in results):
        print("STABILITY: %d patches, %d detected under every seed, not under every seed: %s" % (len(results), len(results) - len(unstable), unstable))
    missed = [r["patch"] for r in results if not r.get("caught")]
    print("SUMMARY: %d patches, %d caught, missed: %s" % (len(results), len(results) - len(missed), missed))
    return 0


if __name__ == "__main__":
    sys.exit(main())
