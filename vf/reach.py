"""Reach of the workloads: which source lines and which sides of which branches of python/gherkin/** the
shards of a run actually executed.  Off unless VF_REACH_DIR is set (selftest/reach.py sets it); uses its own
sys.monitoring tool id, so the step clock (C01) and the yield injector (C15) are not disturbed.

LINE events are disabled per location after the first hit (cheap); BRANCH events are kept (a 3.12 DISABLE would
hide the second side of the branch) and recorded as (line of the branch, line of the destination)."""
from __future__ import annotations

import atexit
import json
import os
import sys

TOOL = 5


def enable(prefix, out_dir, tag):
    mon = sys.monitoring
    try:
        mon.use_tool_id(TOOL, "vf-reach")
    except ValueError:
        return False
    lines = set()
    arcs = set()
    off2line = {}

    def line_of(code, off):
        key = (code, off)
        v = off2line.get(key)
        if v is None:
            v = 0
            for start, end, ln in code.co_lines():
                if start <= off < end and ln is not None:
                    v = ln
                    break
            off2line[key] = v
        return v

    def on_line(code, line):
        if code.co_filename.startswith(prefix):
            lines.add((code.co_filename[len(prefix):], line))
        return mon.DISABLE

    def on_branch(code, src, dst):
        if not code.co_filename.startswith(prefix):
            return mon.DISABLE
        arcs.add((code.co_filename[len(prefix):], code.co_qualname, line_of(code, src), src, line_of(code, dst)))

    mon.register_callback(TOOL, mon.events.LINE, on_line)
    mon.register_callback(TOOL, mon.events.BRANCH, on_branch)
    mon.set_events(TOOL, mon.events.LINE | mon.events.BRANCH)

    def dump():
        try:
            mon.set_events(TOOL, 0)
        except Exception:
            pass
        path = os.path.join(out_dir, "%s-%d.json" % (tag, os.getpid()))
        with open(path, "w") as f:
            json.dump({"lines": sorted(lines), "arcs": sorted(arcs)}, f)
    atexit.register(dump)
    return True
