"""Threshold documents: regular documents in which ONE dimension has size n, for n around
10, 32, 64, 100, 128, 256, 512, 1000, 1024 — counts that cross the points where string/integer
comparison of ids, bounded buffers, two-digit columns and similar slips change behaviour.
Each document comes with its intended AST (built while the text is written) and line kinds."""
from __future__ import annotations

SPARSE = [199, 200, 201, 255, 256, 257, 511, 512, 513, 999, 1000, 1001, 1023, 1024, 1025]
THRESH = list(range(1, 131)) + SPARSE            # quick: every size 1..130 (a limit can sit anywhere, e.g. at 80), then the usual suspects
THRESH_THOROUGH = list(range(1, 301)) + [n for n in SPARSE if n > 300] + [2047, 2048, 2049, 4095, 4096, 4097]
DIMS = ["table_rows", "table_cols", "tags_on_line", "tag_lines", "steps", "scenarios", "examples_rows",
        "examples_tables", "description_lines", "docstring_lines", "name_length", "indent", "rules",
        "comments", "blank_lines", "window", "cell_length", "examples_cols", "background_steps",
        "desc_line_length", "doc_line_length", "comment_length", "step_length", "tag_length"]
# dimensions that are the length of ONE line: cheap, so they also get the sizes of I/O buffers and read limits
LENGTH_DIMS = ("name_length", "cell_length", "indent", "desc_line_length", "doc_line_length", "comment_length", "step_length", "tag_length")
LONG = [2047, 2048, 2049, 4095, 4096, 4097, 8191, 8192, 8193, 16383, 16384, 16385, 32767, 32768, 32769, 65535, 65536, 65537,
        131071, 131072, 131073]
LONG_THOROUGH = LONG + [(1 << 20) - 1, 1 << 20, (1 << 20) + 1, (1 << 22) + 1]


class R:
    """Same shape as docmodel.Rendered."""
    __slots__ = ("text", "lines", "kinds", "ast", "nl", "final_nl", "dialect", "stats", "seed", "default_dialect")


class B:
    def __init__(self):
        self.lines = []
        self.kinds = []
        self.comments = []

    def emit(self, line, kind):
        self.lines.append(line)
        self.kinds.append(kind)
        return len(self.lines)

    def loc(self, ind):
        return {"line": len(self.lines), "column": ind + 1}

    def title(self, ind, kw, name, kind):
        self.emit(" " * ind + kw + ": " + name, kind)
        return self.loc(ind)

    def step(self, ind, kw, ktype, text):
        self.emit(" " * ind + kw + text, "StepLine")
        return {"location": self.loc(ind), "keyword": kw, "keywordType": ktype, "text": text}

    def row(self, ind, values):
        line = " " * ind + "|"
        cells = []
        ln = len(self.lines) + 1
        for v in values:
            cells.append({"location": {"line": ln, "column": len(line) + 2 if v != "" else len(line) + 2}, "value": v})
            line += " " + v + " |"
        # empty cell: column of the closing pipe; with one blank on each side that is start + 2 as well (| _ _ |)
        for c, v in zip(cells, values):
            if v == "":
                c["location"]["column"] += 1
        self.emit(line, "TableRow")
        return {"location": {"line": ln, "column": ind + 1}, "cells": cells}

    def tagline(self, ind, names):
        line = " " * ind
        ln = len(self.lines) + 1
        out = []
        for nm in names:
            out.append({"location": {"line": ln, "column": len(line) + 1}, "name": nm})
            line += nm + " "
        self.emit(line.rstrip(" "), "TagLine")
        return out

    def comment(self, ind, text):
        line = " " * ind + "#" + text
        ln = self.emit(line, "Comment")
        self.comments.append({"location": {"line": ln, "column": 1}, "text": line})

    def scenario(self, ind, name="s", tags=(), steps=1, kw="Scenario"):
        tg = []
        for names in tags:
            tg += self.tagline(ind, names)
        loc = self.title(ind, kw, name, "ScenarioLine")
        st = [self.step(ind + 2, "Given ", "Context", "step %d" % k) for k in range(steps)]
        return {"tags": tg, "location": loc, "keyword": kw, "name": name, "description": "", "steps": st, "examples": []}


def build(dim, n):
    b = B()
    floc = b.title(0, "Feature", "f", "FeatureLine")
    desc = ""
    children = []
    if dim == "table_rows":
        sc = b.scenario(2, steps=1)
        rows = [b.row(6, ["r%d" % k, "x"]) for k in range(n)]
        sc["steps"][0]["dataTable"] = {"location": rows[0]["location"], "rows": rows}
        children.append({"scenario": sc})
    elif dim == "table_cols":
        sc = b.scenario(2, steps=1)
        rows = [b.row(6, ["c%d" % k for k in range(n)]), b.row(6, [("" if k % 7 == 3 else "v%d" % k) for k in range(n)])]
        sc["steps"][0]["dataTable"] = {"location": rows[0]["location"], "rows": rows}
        children.append({"scenario": sc})
    elif dim == "cell_length":
        sc = b.scenario(2, steps=1)
        rows = [b.row(6, ["x" * n, "y"])]
        sc["steps"][0]["dataTable"] = {"location": rows[0]["location"], "rows": rows}
        children.append({"scenario": sc})
    elif dim == "tags_on_line":
        children.append({"scenario": b.scenario(2, tags=[["@t%d" % k for k in range(n)]])})
    elif dim == "tag_lines":
        children.append({"scenario": b.scenario(2, steps=1)})
        children.append({"scenario": b.scenario(2, name="t", tags=[["@l%d" % k] for k in range(n)])})
    elif dim == "steps":
        children.append({"scenario": b.scenario(2, steps=n)})
    elif dim == "background_steps":
        bl = b.title(2, "Background", "", "BackgroundLine")
        st = [b.step(4, "Given ", "Context", "bg %d" % k) for k in range(n)]
        children.append({"background": {"location": bl, "keyword": "Background", "name": "", "description": "", "steps": st}})
        children.append({"scenario": b.scenario(2, steps=1)})
    elif dim == "scenarios":
        for k in range(n):
            children.append({"scenario": b.scenario(2, name="s%d" % k, steps=1)})
    elif dim in ("examples_rows", "examples_tables", "examples_cols"):
        sc = b.scenario(2, name="o <a>", steps=1, kw="Scenario Outline")
        nt = n if dim == "examples_tables" else 1
        nr = n if dim == "examples_rows" else 2
        nc = n if dim == "examples_cols" else 1
        for t in range(nt):
            el = b.title(4, "Examples", "e%d" % t, "ExamplesLine")
            hdr = b.row(6, ["a"] + ["h%d" % k for k in range(1, nc)])
            body = [b.row(6, ["v%d" % k] + ["w%d" % j for j in range(1, nc)]) for k in range(nr)]
            sc["examples"].append({"tags": [], "location": el, "keyword": "Examples", "name": "e%d" % t, "description": "",
                                   "tableHeader": hdr, "tableBody": body})
        children.append({"scenario": sc})
    elif dim == "description_lines":
        ds = []
        for k in range(n):
            line = "  description line %d" % k
            b.emit(line, "Other")
            ds.append(line)
        desc = "\n".join(ds)
        children.append({"scenario": b.scenario(2, steps=1)})
    elif dim == "docstring_lines":
        sc = b.scenario(2, steps=1)
        b.emit('      """', "DocStringSeparator")
        dl = b.loc(6)
        content = []
        for k in range(n):
            b.emit("      content %d" % k, "Other")
            content.append("content %d" % k)
        b.emit('      """', "DocStringSeparator")
        sc["steps"][0]["docString"] = {"location": dl, "content": "\n".join(content), "delimiter": '"""'}
        children.append({"scenario": sc})
    elif dim == "name_length":
        children.append({"scenario": b.scenario(2, name="N" * n, steps=1)})
    elif dim == "desc_line_length":
        line = "  " + ("d" * 9 + " ") * (n // 10) + "e" * (n % 10 or 10)
        line = line[:2 + n].rstrip().ljust(2 + n, "f")
        b.emit(line, "Other")
        desc = line
        children.append({"scenario": b.scenario(2, steps=1)})
    elif dim == "doc_line_length":
        sc = b.scenario(2, steps=1)
        b.emit('      """', "DocStringSeparator")
        dl = b.loc(6)
        content = ("c" * 7 + " ") * (n // 8) + "c" * (n % 8)
        content = content[:n].rstrip().ljust(n, "g")
        b.emit("      " + content, "Other")
        b.emit("      after", "Other")
        b.emit('      """', "DocStringSeparator")
        sc["steps"][0]["docString"] = {"location": dl, "content": content + "\nafter", "delimiter": '"""'}
        children.append({"scenario": sc})
    elif dim == "comment_length":
        children.append({"scenario": b.scenario(2, steps=1)})
        b.comment(4, "c" * max(0, n - 1))
        children[0]["scenario"]["steps"].append(b.step(4, "Then ", "Outcome", "after the comment"))
    elif dim == "step_length":
        sc = b.scenario(2, steps=0)
        sc["steps"].append(b.step(4, "Given ", "Context", "s" * n))
        sc["steps"].append(b.step(4, "And ", "Conjunction", "after the long step"))
        children.append({"scenario": sc})
    elif dim == "tag_length":
        children.append({"scenario": b.scenario(2, tags=[["@" + "t" * n, "@after"]], steps=1)})
    elif dim == "indent":
        children.append({"scenario": b.scenario(n, tags=[["@deep"]], steps=2)})
    elif dim == "rules":
        for k in range(n):
            rl = b.title(2, "Rule", "r%d" % k, "RuleLine")
            children.append({"rule": {"tags": [], "location": rl, "keyword": "Rule", "name": "r%d" % k, "description": "",
                                      "children": [{"scenario": b.scenario(4, name="rs%d" % k, steps=1, kw="Example")}]}})
    elif dim == "comments":
        children.append({"scenario": b.scenario(2, steps=1)})
        for k in range(n):
            b.comment(4, " comment %d" % k)
        children[0]["scenario"]["steps"].append(b.step(4, "Then ", "Outcome", "after the comments"))
    elif dim == "blank_lines":
        children.append({"scenario": b.scenario(2, steps=1)})
        for k in range(n):
            b.emit("", "Empty")
        children[0]["scenario"]["steps"].append(b.step(4, "Then ", "Outcome", "after the blank lines"))
    elif dim == "window":
        # a look-ahead window of n comment/blank/tag lines between the first tag line and its Scenario
        children.append({"scenario": b.scenario(2, steps=1)})
        tags = b.tagline(2, ["@first"])
        for k in range(n):
            if k % 3 == 0:
                b.comment(2, " in the window %d" % k)
            elif k % 3 == 1:
                b.emit("", "Empty")
            else:
                tags += b.tagline(2, ["@w%d" % k])
        loc = b.title(2, "Scenario", "after the window", "ScenarioLine")
        children.append({"scenario": {"tags": tags, "location": loc, "keyword": "Scenario", "name": "after the window",
                                      "description": "", "steps": [b.step(4, "Given ", "Context", "x")], "examples": []}})
    else:
        raise KeyError(dim)
    ast = {"feature": {"tags": [], "location": floc, "language": "en", "keyword": "Feature", "name": "f",
                       "description": desc, "children": children}, "comments": b.comments}
    r = R()
    r.lines, r.kinds, r.ast = b.lines, b.kinds, ast
    r.nl, r.final_nl, r.dialect, r.stats = "\n", True, "en", {"threshold.%s" % dim: 1}
    r.default_dialect = "en"
    r.text = "\n".join(b.lines) + "\n"
    return r


def cases(tier, part=None, parts=None):
    """(dim, n) pairs; quick stops at 257 except for the cheap dimensions."""
    out = []
    cheap = ("window", "table_rows", "tag_lines", "comments", "blank_lines", "name_length", "indent", "cell_length")
    for dim in DIMS:
        sizes = (THRESH if tier == "quick" else THRESH_THOROUGH)
        if dim in LENGTH_DIMS:
            sizes = sorted(set(sizes) | set(LONG if tier == "quick" else LONG_THOROUGH))
        for n in sizes:
            if n > 1025 and dim not in cheap and dim not in LENGTH_DIMS:
                continue
            if tier == "quick" and n > 257 and dim not in cheap and dim not in LENGTH_DIMS:
                continue
            if dim in ("rules", "scenarios", "examples_tables") and n > 513 and tier == "quick":
                continue
            out.append((dim, n))
    if parts:
        out = [c for k, c in enumerate(out) if k % parts == part]
    return out
