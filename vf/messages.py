"""R7 — hand-written validator for the Cucumber Messages shapes this library emits.
Step.keywordType and PickleStep.type are optional in Cucumber Messages (their presence and
value are C05/C10's concern); when present they must come from the fixed vocabularies and
must not be null."""
from __future__ import annotations

import json

S, I, L = "str", "int", "list"
KEYWORD_TYPES = {"Unknown", "Context", "Action", "Outcome", "Conjunction"}
PICKLE_STEP_TYPES = {"Unknown", "Context", "Action", "Outcome"}
MEDIA_TYPES = {"text/x.cucumber.gherkin+plain", "text/x.cucumber.gherkin+markdown"}

# shape := {key: (type, required)}; type is 'str' | 'int' | ('list', T) | ('enum', set) | shape-name | ('oneof', {key: T})
SHAPES = {
    "Location": {"line": (I, True), "column": (I, False)},
    "Comment": {"location": ("Location", True), "text": (S, True)},
    "Tag": {"id": (S, True), "location": ("Location", True), "name": (S, True)},
    "TableCell": {"location": ("Location", True), "value": (S, True)},
    "TableRow": {"id": (S, True), "location": ("Location", True), "cells": ((L, "TableCell"), True)},
    "DataTable": {"location": ("Location", True), "rows": ((L, "TableRow"), True)},
    "DocString": {"location": ("Location", True), "mediaType": (S, False), "content": (S, True), "delimiter": (S, True)},
    "Step": {"id": (S, True), "location": ("Location", True), "keyword": (S, True),
             "keywordType": (("enum", KEYWORD_TYPES), False), "text": (S, True),
             "docString": ("DocString", False), "dataTable": ("DataTable", False)},
    "Background": {"id": (S, True), "location": ("Location", True), "keyword": (S, True), "name": (S, True),
                   "description": (S, True), "steps": ((L, "Step"), True)},
    "Examples": {"id": (S, True), "location": ("Location", True), "tags": ((L, "Tag"), True), "keyword": (S, True),
                 "name": (S, True), "description": (S, True), "tableHeader": ("TableRow", False),
                 "tableBody": ((L, "TableRow"), True)},
    "Scenario": {"id": (S, True), "location": ("Location", True), "tags": ((L, "Tag"), True), "keyword": (S, True),
                 "name": (S, True), "description": (S, True), "steps": ((L, "Step"), True),
                 "examples": ((L, "Examples"), True)},
    "RuleChild": ("oneof", {"background": "Background", "scenario": "Scenario"}),
    "Rule": {"id": (S, True), "location": ("Location", True), "tags": ((L, "Tag"), True), "keyword": (S, True),
             "name": (S, True), "description": (S, True), "children": ((L, "RuleChild"), True)},
    "FeatureChild": ("oneof", {"background": "Background", "scenario": "Scenario", "rule": "Rule"}),
    "Feature": {"location": ("Location", True), "tags": ((L, "Tag"), True), "language": (S, True), "keyword": (S, True),
                "name": (S, True), "description": (S, True), "children": ((L, "FeatureChild"), True)},
    "GherkinDocument": {"uri": (S, True), "feature": ("Feature", False), "comments": ((L, "Comment"), True)},
    "Source": {"uri": (S, True), "data": (S, True), "mediaType": (("enum", MEDIA_TYPES), True)},
    "PickleTableCell": {"value": (S, True)},
    "PickleTableRow": {"cells": ((L, "PickleTableCell"), True)},
    "PickleTable": {"rows": ((L, "PickleTableRow"), True)},
    "PickleDocString": {"mediaType": (S, False), "content": (S, True)},
    "PickleStepArgument": ("oneof", {"docString": "PickleDocString", "dataTable": "PickleTable"}),
    "PickleTag": {"name": (S, True), "astNodeId": (S, True)},
    "PickleStep": {"id": (S, True), "astNodeIds": ((L, S), True), "text": (S, True),
                   "type": (("enum", PICKLE_STEP_TYPES), False), "argument": ("PickleStepArgument", False)},
    "Pickle": {"id": (S, True), "uri": (S, True), "name": (S, True), "language": (S, True),
               "steps": ((L, "PickleStep"), True), "tags": ((L, "PickleTag"), True), "astNodeIds": ((L, S), True)},
    "SourceReference": {"uri": (S, True), "location": ("Location", True)},
    "ParseError": {"source": ("SourceReference", True), "message": (S, True)},
    "Envelope": ("oneof", {"source": "Source", "gherkinDocument": "GherkinDocument", "pickle": "Pickle",
                           "parseError": "ParseError"}),
}


def validate(value, typ, path="$"):
    """-> list of problems (empty = valid)."""
    out = []
    if typ == S:
        if not isinstance(value, str):
            out.append("%s: expected string, got %r" % (path, value))
        return out
    if typ == I:
        if not isinstance(value, int) or isinstance(value, bool):
            out.append("%s: expected integer, got %r" % (path, value))
        return out
    if isinstance(typ, tuple) and typ[0] == L:
        if not isinstance(value, list):
            return ["%s: expected list, got %r" % (path, type(value).__name__)]
        for i, v in enumerate(value):
            out += validate(v, typ[1], "%s[%d]" % (path, i))
        return out
    if isinstance(typ, tuple) and typ[0] == "enum":
        if not isinstance(value, str) or value not in typ[1]:
            out.append("%s: %r not in %s" % (path, value, sorted(typ[1])))
        return out
    shape = SHAPES[typ]
    if not isinstance(value, dict):
        return ["%s: expected %s object, got %r" % (path, typ, value)]
    if isinstance(shape, tuple):        # oneof
        keys = list(value)
        if len(keys) != 1 or keys[0] not in shape[1]:
            return ["%s: expected exactly one of %s, got keys %s" % (path, sorted(shape[1]), keys)]
        return validate(value[keys[0]], shape[1][keys[0]], path + "." + keys[0])
    for k, (t, req) in shape.items():
        if k not in value:
            if req:
                out.append("%s: %s lacks required field %r" % (path, typ, k))
            continue
        if value[k] is None:
            out.append("%s.%s: null (absent optional fields must be omitted)" % (path, k))
            continue
        out += validate(value[k], t, path + "." + k)
    for k in value:
        if k not in shape:
            out.append("%s: %s has unknown field %r" % (path, typ, k))
    return out


def validate_envelope(env):
    problems = validate(env, "Envelope")
    try:
        json.dumps(env)
    except Exception as e:       # not JSON-serialisable
        problems.append("json.dumps failed: %r" % (e,))
    return problems


def selfcheck():
    from . import corpus
    n = 0
    problems = []
    for g in corpus.good():
        for key in ("ast", "pickles", "source"):
            for env in g[key] or []:
                n += 1
                p = validate_envelope(env)
                if p:
                    problems.append((g["path"], key, p[:2]))
    for b in corpus.bad():
        for env in b["errors"] or []:
            n += 1
            p = validate_envelope(env)
            if p:
                problems.append((b["path"], "errors", p[:2]))
    return n, problems
