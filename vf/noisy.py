"""W4 — noisy documents: random sequences over a pool of concrete lines whose kind is known
by construction, and a simulator that predicts what a correct parser does with them.

The simulator is an interpreter of the R2 consensus table (read from the sibling parsers)
combined with a small model of what the matcher and builder do to a line of known kind
(doc-string delimiter state, look-ahead scan, bad-tag and unknown-language errors raised
when the line is *tested*, ragged-table error at the `end` event of the table rule,
de-duplication by message, stop after the 11th error, stop-at-first-error).  It predicts
acceptance, the exact error list in discovery order, the delivered lines and the builder
event trace.
"""
from __future__ import annotations

from . import observe


class PL:
    __slots__ = ("text", "kind", "ncells", "sep", "bad", "lang")

    def __init__(self, text, kind, ncells=0, sep=None, bad=None, lang=None):
        self.text = text
        self.kind = kind if isinstance(kind, dict) or kind is None else {"en": kind, "fr": kind}
        self.ncells = ncells
        self.sep = sep
        self.bad = bad
        self.lang = lang


def EN(k):
    return {"en": k, "fr": None}


def FR(k):
    return {"en": None, "fr": k}


POOL = [
    PL("Feature: F", EN("FeatureLine")), PL("Rule: R", EN("RuleLine")), PL("Background: B", EN("BackgroundLine")),
    PL("Scenario: S", EN("ScenarioLine")), PL("Scenario Outline: O", EN("ScenarioLine")), PL("Example: E", EN("ScenarioLine")),
    PL("Examples: X", EN("ExamplesLine")), PL("Scenarios:", EN("ExamplesLine")),
    PL("Given x", EN("StepLine")), PL("And y", EN("StepLine")), PL("* z", "StepLine"), PL("Then w", EN("StepLine")),
    PL("Fonctionnalité: F", FR("FeatureLine")), PL("Règle: R", FR("RuleLine")), PL("Contexte:", FR("BackgroundLine")),
    PL("Scénario: S", FR("ScenarioLine")), PL("Plan du scénario: O", FR("ScenarioLine")), PL("Exemples:", FR("ExamplesLine")),
    PL("Soit x", FR("StepLine")), PL("Et y", FR("StepLine")), PL("Alors w", FR("StepLine")),
    PL("@t1 @t2", "TagLine"), PL("@t3", "TagLine"), PL("@bad tag", "TagLine", bad=0), PL("@ok @b ad", "TagLine", bad=4),
    PL("@t4 #c", "TagLine"),
    PL("| a | b |", "TableRow", ncells=2), PL("| c |", "TableRow", ncells=1), PL("|d|e|", "TableRow", ncells=2),
    PL("| x \\", "TableRow", ncells=0), PL("||", "TableRow", ncells=1),
    PL('"""', "DocStringSeparator", sep='"""'), PL('"""json', "DocStringSeparator", sep='"""'),
    PL("```", "DocStringSeparator", sep="```"),
    PL('\\"\\"\\"', None), PL("# comment", "Comment"), PL("#language: zz", "Comment", lang="zz"),
    PL("# language: en", "Comment", lang="en"), PL("#language:fr", "Comment", lang="fr"),
    PL("", "Empty"), PL("   ", "Empty"), PL("free text", None), PL("Given", None), PL("Feature", None),
]
IDX = {p.text: i for i, p in enumerate(POOL)}
KNOWN_LANGS = ("en", "fr")


def gen(rnd, maxlen=30):
    n = rnd.randint(1, maxlen)
    L = []
    fr = rnd.random() < 0.25
    for _ in range(n):
        p = rnd.randrange(len(POOL))
        L.append((rnd.choice([0, 0, 2, 4, 7]), p))
    if rnd.random() < 0.7:
        L.insert(0, (0, IDX["Fonctionnalité: F"] if fr else IDX["Feature: F"]))
    if fr and rnd.random() < 0.8:
        L.insert(0, (rnd.choice([0, 2]), IDX["#language:fr"]))
    if rnd.random() < 0.5:
        L.insert(rnd.randint(1, len(L)), (2, IDX["Scénario: S"] if fr else IDX["Scenario: S"]))
    return L


def gen_tables(rnd, maxlen=30):
    """Table-heavy variant: steps and examples followed by rows of varying cell counts (ragged tables at known rows)."""
    rows = [IDX[t] for t in ("| a | b |", "| c |", "|d|e|", "||", "| x \\")]
    heads = [IDX[t] for t in ("Given x", "And y", "Examples: X", "Scenarios:", "* z")]
    others = [IDX[t] for t in ("# comment", "", "Scenario: S", "Scenario Outline: O", "@t1 @t2", "free text", '"""', "Rule: R", "Background: B")]
    L = [(0, IDX["Feature: F"]), (2, IDX["Scenario Outline: O"])]
    while len(L) < rnd.randint(4, maxlen):
        c = rnd.random()
        if c < 0.25:
            L.append((4, rnd.choice(heads)))
        elif c < 0.8:
            L.append((rnd.choice([4, 6, 6, 7]), rnd.choice(rows)))
        else:
            L.append((rnd.choice([0, 2, 4]), rnd.choice(others)))
    return L


def pl_of(x):
    """Second element of an L entry: a pool index, or a custom line written as the JSON-serialisable list
    [text, kind dict or None, ncells, sep, bad, lang]."""
    if isinstance(x, int):
        return POOL[x]
    return PL(x[0], x[1], x[2], x[3], x[4], x[5])


def text_of(L, nl="\n", final=True):
    s = nl.join(" " * i + pl_of(p).text for i, p in L)
    return s + (nl if final else "")


STRETCH_LENGTHS = list(range(1, 131)) + [199, 200, 201, 255, 256, 257, 511, 512, 513, 1023, 1024, 1025]


def stretched(p, n):
    """A variant of pool line p with the same kind, cell count, delimiter, bad-tag offset and language whose text
    has exactly n characters (None if that line cannot be stretched to n)."""
    p = pl_of(p)
    t = p.text
    if p.lang is not None or p.sep is not None or t.strip() == "" or n <= len(t):
        return None
    pk = (p.kind or {}).get("en") or (p.kind or {}).get("fr")
    extra = n - len(t)
    fill = ("x" * 9 + " ") * (extra // 10) + "y" * (extra % 10)
    if fill.endswith(" "):
        fill = fill[:-1] + "z"
    if pk == "TagLine":
        if "#" in t:
            return None
        t2 = t + fill.replace(" ", "_")          # the last tag grows; a bad tag stays bad at the same offset
    elif pk == "TableRow":
        if not t.endswith("|") or t == "||":
            return None
        t2 = t[:-1] + fill.replace(" ", "_") + "|"       # the last cell grows
    elif pk in ("FeatureLine", "RuleLine", "BackgroundLine", "ScenarioLine", "ExamplesLine", "StepLine", "Comment") or p.kind is None:
        if p.kind is None and t in ("Given", "Feature", '\\"\\"\\"'):
            return None
        t2 = t + fill
    else:
        return None
    return [t2, p.kind, p.ncells, p.sep, p.bad, p.lang]


def gen_stretched(rnd, maxlen=20):
    """gen() with one to three lines stretched to an exact length from STRETCH_LENGTHS."""
    L = gen(rnd, maxlen)
    for _ in range(rnd.randint(1, 3)):
        k = rnd.randrange(len(L))
        v = stretched(L[k][1], rnd.choice(STRETCH_LENGTHS))
        if v is not None:
            L[k] = (L[k][0], v)
    return L


class _Stop(Exception):
    pass


def simulate(L, stop_mode=False):
    """L: [(indent, pool index)].  -> dict(errors, delivered, events, accepted, states)"""
    table, _, _, la_targets = observe.sibling_table()
    errors = []
    delivered = []
    events = [("start", "GherkinDocument")]
    state = 0
    st = {"active": None, "dialect": "en"}
    tables = []
    N = len(L)
    states = []

    def add_error(msg):
        if stop_mode:
            errors.append(msg)
            raise _Stop()
        if msg not in errors:
            errors.append(msg)
            if len(errors) > 10:
                raise _Stop()

    def line(i):
        return L[i][0], pl_of(L[i][1])

    def trimmed(i):
        return line(i)[1].text.strip()

    def is_empty(i):
        return trimmed(i) == ""

    def kind_of(p):
        return p.kind.get(st["dialect"]) if p.kind else None

    def matches(i, kind):
        """model of TokenMatcher.match_<kind> on line i (0-based); i == N is EOF"""
        if i == N:
            return kind == "EOF"
        if kind == "EOF":
            return False
        ind, p = line(i)
        if kind == "Other":
            return True
        if kind == "Empty":
            return is_empty(i)
        if is_empty(i):
            return False
        if kind == "Language":
            if p.lang is None:
                return False
            if p.lang in KNOWN_LANGS or p.lang in _supported():
                st["dialect"] = p.lang
                return True
            add_error("(%d:%d): Language not supported: %s" % (i + 1, ind + 1, p.lang))
            return False
        pk = kind_of(p)
        if kind == "Comment":
            return pk == "Comment"
        if kind == "TagLine":
            if pk != "TagLine":
                return False
            if p.bad is not None:
                add_error("(%d:%d): A tag may not contain whitespace" % (i + 1, ind + 1 + p.bad))
                return False
            return True
        if kind == "DocStringSeparator":
            if p.sep is None:
                return False
            if st["active"] is None:
                st["active"] = p.sep
                return True
            if p.sep == st["active"]:
                st["active"] = None
                return True
            return False
        return pk == kind

    def lookahead(i, which):
        target, skip = la_targets[which]
        j = i + 1
        while True:
            if matches(j, target):
                return True
            if not any(matches(j, k) for k in skip):
                return False
            j += 1

    cur_kind = [None]

    def produce(ev, i):
        for e in ev:
            if e[0] == "start":
                events.append(("start", e[1]))
                if e[1] in ("DataTable", "ExamplesTable"):
                    tables.append([])
            elif e[0] == "end":
                events.append(("end", e[1]))
                if e[1] in ("DataTable", "ExamplesTable"):
                    rows = tables.pop()
                    for (ln, col, nc) in rows:
                        if nc != rows[0][2]:
                            add_error("(%d:%d): inconsistent cell count within the table" % (ln, col))
                            break
            else:
                if i < N:
                    ind, p = line(i)
                    delivered.append((i + 1, cur_kind[0]))
                    events.append(("build", cur_kind[0]))
                    if cur_kind[0] == "TableRow" and tables:
                        tables[-1].append((i + 1, ind + 1, p.ncells))
                else:
                    delivered.append(("EOF", "EOF"))
                    events.append(("build", "EOF"))

    finished = False
    try:
        i = 0
        while True:
            tests, exp = table[state]
            states.append(state)
            done = False
            for kind, la, ev, to in tests:
                if matches(i, kind):
                    if la is not None and not lookahead(i, la):
                        continue
                    cur_kind[0] = kind
                    produce(ev, i)
                    state = to
                    done = True
                    break
            if not done:
                if i == N:
                    add_error("(%d:0): unexpected end of file, expected: %s" % (N + 1, ", ".join(exp)))
                else:
                    add_error("(%d:%d): expected: %s, got '%s'" % (i + 1, L[i][0] + 1, ", ".join(exp), trimmed(i)))
            if i == N:
                break
            i += 1
        events.append(("end", "GherkinDocument"))
        finished = True
    except _Stop:
        pass
    return {"errors": errors, "delivered": delivered, "events": events, "accepted": finished and not errors,
            "finished": finished, "states": states}


# ---------------------------------------------------------------- the same documents in any dialect

_sup = None


def _supported():
    global _sup
    if _sup is None:
        from . import dialects
        _sup = set(dialects.master())
    return _sup


ROLE_OF = {"Feature: F": ("feature", ": F"), "Rule: R": ("rule", ": R"), "Background: B": ("background", ": B"), "Scenario: S": ("scenario", ": S"),
           "Scenario Outline: O": ("scenarioOutline", ": O"), "Example: E": ("scenario", ": E"), "Examples: X": ("examples", ": X"),
           "Scenarios:": ("examples", ":"), "Given x": ("given", "x"), "And y": ("and|but", "y"), "Then w": ("then", "w")}
_KEYWORD_KINDS = ("FeatureLine", "RuleLine", "BackgroundLine", "ScenarioLine", "ExamplesLine", "StepLine")


def gen_any(rnd, maxlen=30):
    """gen(), and for every second document its translation into a randomly chosen other dialect."""
    L = gen(rnd, maxlen)
    if rnd.random() < 0.5:
        names = sorted(_supported() - {"en"})
        T = translate(L, rnd.choice(names), rnd)
        if T is not None:
            return T
    return L


def translate(L, d, rnd):
    """The pool-line document L rewritten in dialect d: a language header in front, every English keyword line with a
    randomly chosen LISTED keyword of d of the same role (any of them, not just the first).  The kind of every line under d
    is decided by the keyword-table rules (vf/dialects.py), not assumed; a document with a line that d reads in two ways is
    dropped (None).  French lines and language headers of the pool are left out."""
    from . import dialects
    spec = dialects.master()[d]
    hdr = rnd.choice(["#language: " + d, "# language: " + d, "#language:" + d])
    out = [(rnd.choice([0, 0, 2]), [hdr, {"en": "Comment", "fr": "Comment", d: "Comment"}, 0, None, None, d])]
    for ind, p in L:
        pl = pl_of(p)
        if pl.lang is not None:
            continue
        if pl.kind is not None and pl.kind.get("en") is None:
            continue                    # a French keyword line
        text = pl.text
        if text in ROLE_OF:
            role, rest = ROLE_OF[text]
            kws = (spec["and"] + spec["but"]) if role == "and|but" else spec[role]
            kws = [k for k in kws if k != "* "] or kws
            text = rnd.choice(kws) + rest
        t = text.strip()
        tk = dialects.title_kinds(spec, t)
        stp = dialects.expected_step(spec, t)
        if (tk and stp) or len(tk) > 1:
            return None
        generic = pl.kind.get("en") if pl.kind else None
        if generic in _KEYWORD_KINDS:
            generic = None
        kind = next(iter(tk)) if tk else ("StepLine" if stp else generic)
        if generic is not None and (tk or stp):
            return None                 # a tag/row/comment/delimiter line cannot be a keyword line; be safe
        out.append((ind, [text, {d: kind, "en": kind, "fr": kind}, pl.ncells, pl.sep, pl.bad, None]))
    return out


# ---------------------------------------------------------------- real-text paths to every parser state

REP = {  # representative pool line (en) per token kind
    "FeatureLine": "Feature: F", "RuleLine": "Rule: R", "BackgroundLine": "Background: B", "ScenarioLine": "Scenario: S",
    "ExamplesLine": "Examples: X", "StepLine": "Given x", "TagLine": "@t1 @t2", "TableRow": "| a | b |",
    "DocStringSeparator": '"""', "Comment": "# comment", "Language": "# language: en", "Empty": "", "Other": "free text",
}
_paths = None


def state_paths(maxdepth=9):
    """{state: (L, i)}: an error-free pool-line sequence L (en) whose simulation is in `state`
    when line i (0-based; i == len(L) is EOF) is about to be processed.  Breadth-first over
    sequences of representative lines, de-duplicated by (state reached, trailing tag/comment/blank run)."""
    global _paths
    if _paths is not None:
        return _paths
    reps = [(0, IDX[t]) for t in REP.values()]
    found = {}
    frontier = [[]]
    seen = set()
    for depth in range(maxdepth + 1):
        nxt = []
        for L in frontier:
            sim = simulate(L, False)
            if sim["errors"] and not (len(sim["errors"]) == 1 and "unexpected end of file" in sim["errors"][0]):
                continue
            for i, s in enumerate(sim["states"]):
                if s not in found:
                    found[s] = (list(L), i)
            trail = []
            for ind, p in reversed(L):
                k = POOL[p].kind.get("en") if POOL[p].kind else None
                if k in ("TagLine", "Comment", "Empty") and len(trail) < 2:
                    trail.append(k)
                else:
                    break
            # the reading of a trailing tag/comment/blank run depends on what follows it, so the
            # state in which the run started is part of the key
            key = (sim["states"][len(L) - len(trail)], sim["states"][-1], tuple(trail))
            if key in seen:
                continue
            seen.add(key)
            for rep in reps:
                nxt.append(L + [rep])
        frontier = nxt
        if len(found) >= 42:
            break
    _paths = found
    return found
