"""C14 — rejected documents get errors at the right place with the right expectation."""
from __future__ import annotations

from .. import observe, noisy, corpus, docmodel, workloads
from ..common import h64, short
from .base import rng, shards, apply_parse_monitors, cover_transitions, ReusedEnv

ID = "C14"
LEVEL = "exploration"
RULE = ("(a) exhaustive (parser state, next line kind) pairs: for each of the 42 states a real-text prefix reaching it (breadth-first "
        "over the sibling-derived table), then a representative line of each of the 13 kinds (or end of file) inserted at that "
        "point, then the valid continuation; (b) W3 fault-injected documents in all dialects; (c) W4 noisy pool documents (en/fr) "
        "with one or many faults of every kind (unexpected line, bad tag, unknown language, ragged table, premature EOF, >11 "
        "errors, repeated messages); (d) the bad corpus vs its golden .errors.ndjson.  For (a),(c) a simulator (sibling transition "
        "tables + matcher/builder error model) predicts acceptance and the exact error list (text, position, discovery order, "
        "de-duplication, stop after the 11th); every case runs in collecting and stop-at-first-error mode and through "
        "GherkinEvents.enum (one parseError envelope per error, nothing else).  Monitor G8 checks every rejected document "
        "generically.  Distinct = hash of the source text."
        " Also: table-heavy noisy documents (ragged tables at known rows), noisy documents on reused objects, every fourth parse from a TokenScanner object, the stream also with a stop-at-first-error parser (exactly the first error as one envelope).")
ASSUMPTIONS = ["the simulator's expected-token lists and transitions are read from the sibling parsers (ruby/go/java/c/javascript), which agree among themselves",
               "pool lines have kinds known by construction (cross-checked against the keyword table by setup_cmd)"]
DECIDING = ["sim_compared", "G8.evaluated", "stop_mode_compared", "enum_compared", "pairs_exercised"]
G_DECIDING = {"G8", "G1", "G3"}


def plan(tier, seed):
    q = tier == "quick"
    specs = [{"family": "pairs", "seed": seed, "n": 1, "states": list(range(s, 43, 4))} for s in range(4)]
    specs += shards("noisy", 5000 if q else 300000, 500 if q else 6000, seed)
    specs += shards("noisy_long", 600 if q else 30000, 150 if q else 3000, seed)
    specs += shards("noisy_reused", 2000 if q else 100000, 500 if q else 5000, seed)
    specs += shards("noisy_tables", 2500 if q else 100000, 500 if q else 5000, seed)
    specs += shards("noisy_stretched", 2500 if q else 100000, 500 if q else 5000, seed)
    specs += shards("noisy_dialects", 4000 if q else 160000, 500 if q else 5000, seed)
    specs += shards("faulted", 3000 if q else 150000, 300 if q else 5000, seed)
    specs += [{"family": "corpus", "seed": seed, "n": 1}]
    return specs


def enum_check(text, collect_errors, M, case, accepted):
    st, envs, opened, src = observe.enum_observed(text, uri="features/t.feature")
    M.count("enum_compared")
    if st != "ok":
        M.violation("C14.enum", {"what": "exception escaped GherkinEvents.enum", **envs}, case,
                    mechanism=observe.f1_from_opened(text, opened))
        return
    if accepted:
        if any("parseError" in e for e in envs):
            M.violation("C14.enum", {"what": "accepted source produced parseError envelopes"}, case)
        return
    want = [{"parseError": {"source": {"uri": "features/t.feature", "location": e["location"]}, "message": e["message"]}} for e in collect_errors]
    if envs != want:
        M.violation("C14.enum", {"what": "rejected source: envelopes are not exactly one parseError per error (uri, location, message)",
                                 "got": short(envs, 300), "want": short(want, 300)}, case)
    # whatever is switched off for printing, a rejected source yields its parseError envelopes and nothing else
    opts = [(a, b, c) for a in (True, False) for b in (True, False) for c in (True, False)][M.counters.get("enum_compared", 0) % 8]
    st3, envs3, opened3, _ = observe.enum_observed(text, uri="features/t.feature", options=opts)
    M.count("enum_compared")
    M.count("enum_option_combinations_checked")
    if st3 != "ok":
        M.violation("C14.enum", {"what": "exception escaped GherkinEvents.enum", "options": opts, **envs3}, case,
                    mechanism=observe.f1_from_opened(text, opened3))
    elif envs3 != want:
        M.violation("C14.enum", {"what": "rejected source under print options %s: envelopes are not exactly one parseError per error" % (opts,),
                                 "got": short(envs3, 300), "want": short(want, 300)}, case)
    # the same source through a stream whose parser stops at the first error: exactly the first error
    st2, envs2, opened2, _ = observe.enum_observed(text, uri="features/t.feature", stop=True)
    M.count("enum_compared")
    if st2 != "ok":
        M.violation("C14.enum", {"what": "exception escaped GherkinEvents.enum (stop-at-first-error parser)", **envs2}, case,
                    mechanism=observe.f1_from_opened(text, opened2))
    elif envs2 != want[:1]:
        M.violation("C14.enum", {"what": "stop-at-first-error stream does not yield exactly the first error of collecting mode",
                                 "got": short(envs2, 300), "want": short(want[:1], 300)}, case)


def check_noisy(L, text, M, case, pair_index=None, env=None):
    M.case(h64(text))
    sim = noisy.simulate(L, False)
    sim_stop = noisy.simulate(L, True)
    if sim["errors"] and sim_stop["errors"] != sim["errors"][:1]:
        M.inconc("simulator inconsistent between modes on %s" % short(text, 120))
        return sim
    o = env.parse(text, M) if env is not None else observe.parse_observed(text, False, as_scanner=(M.cases % 4 == 0))
    M.count("sim_compared")
    M.hist("errors_per_document", len(sim["errors"]))
    for e in sim["errors"]:
        kind = ("unexpected-eof" if "unexpected end of file" in e else "unexpected-line" if ", got '" in e else
                "bad-tag" if "whitespace" in e else "unknown-language" if "Language not" in e else "ragged-table")
        M.count("faults." + kind)
    apply_parse_monitors(o, M, case, G_DECIDING)
    cover_transitions(o, M)
    if (o.status == "ok") != sim["accepted"]:
        M.violation("C14.accept", {"what": "document %s but the grammar/fault model says %s" % (
            "accepted" if o.status == "ok" else "rejected", "accepted" if sim["accepted"] else "rejected"),
            "real_errors": o.err_messages()[:3], "predicted": sim["errors"][:3]}, case)
        return sim
    if o.err_messages() != sim["errors"]:
        M.violation("C14.errors", {"what": "error list (text, position, order, de-duplication, cap) differs from the prediction",
                                   "got": o.err_messages()[:4], "want": sim["errors"][:4], "n_got": len(o.errors), "n_want": len(sim["errors"])}, case)
    if o.status != "ok" and o.ast is not None:
        M.violation("C14.ast", {"what": "rejected document yielded an AST"}, case)
    # stop-at-first-error raises precisely the first error of collecting mode
    o2 = observe.parse_observed(text, True)
    M.count("stop_mode_compared")
    apply_parse_monitors(o2, M, dict(case, stop=True), {"G8", "G1"})
    if sim["errors"]:
        if o2.status != "single" or o2.err_messages() != sim["errors"][:1] or \
                (o.errors and (o2.errors[0]["location"] != o.errors[0]["location"] or o2.errors[0]["type"] != o.errors[0]["type"])):
            M.violation("C14.stop", {"what": "stop-at-first-error does not raise precisely the first error of collecting mode",
                                     "stop": [o2.status] + o2.err_messages()[:2], "collecting_first": sim["errors"][:1]}, case)
    elif o2.status != "ok":
        M.violation("C14.stop", {"what": "accepted document rejected in stop-at-first-error mode", "errors": o2.err_messages()[:2]}, case)
    enum_check(text, o.errors, M, case, o.status == "ok")
    return sim


def run_pairs(spec, M):
    paths = noisy.state_paths()
    table, _, _, _ = observe.sibling_table()
    for s in spec["states"]:
        if s not in paths:
            continue
        L0, i = paths[s]
        for kind, rep in list(noisy.REP.items()) + [("EOF", None)]:
            for ind in (0, 3):
                if kind == "EOF":
                    L = L0[:i]
                else:
                    L = L0[:i] + [(ind, noisy.IDX[rep])] + L0[i:]
                text = noisy.text_of(L)
                case = {"kind": "noisy", "L": L, "text": text, "pair": [s, kind]}
                sim = check_noisy(L, text, M, case)
                st_here = sim["states"][i] if i < len(sim["states"]) else None
                line_no = i + 1
                unexpected = any(e.startswith("(%d:" % line_no) and ("expected: " in e) for e in sim["errors"])
                M.cover("pairs", "%s/%s/%s" % (st_here, kind, "unexpected" if unexpected else "ok"))
                M.count("pairs_exercised")
                if unexpected:
                    M.cover("unexpected_pairs", "%s/%s" % (st_here, kind))
    # how many (state, kind) pairs are unexpected according to the table (feasible or not)
    tot = 0
    for s, (tests, exp) in table.items():
        kinds = {k for k, _, _, _ in tests}
        for k in list(noisy.REP) + ["EOF"]:
            if k not in kinds and ("Other" not in kinds or k == "EOF"):
                tot += 1
    M.notes["unexpected_pairs_in_table"] = tot
    M.sample({"state": spec["states"][0], "path": [noisy.POOL[p].text for _, p in paths[spec["states"][0]][0]]})


def run_shard(spec, M):
    fam, seed = spec["family"], spec["seed"]
    if fam == "pairs":
        run_pairs(spec, M)
    elif fam in ("noisy", "noisy_long", "noisy_tables", "noisy_reused", "noisy_stretched", "noisy_dialects"):
        env = ReusedEnv(rng(seed, ID, "reuse", spec["shard"])) if fam == "noisy_reused" else None
        for i in range(spec["start"], spec["start"] + spec["n"]):
            r = rng(seed, ID, fam, i)
            L = noisy.gen_tables(r) if fam == "noisy_tables" else noisy.gen_stretched(r) if fam == "noisy_stretched" else noisy.gen(r, 30 if fam == "noisy" else 90)
            if fam == "noisy_dialects":
                # the same kind of document in every dialect of the language table, with any of its listed keywords
                from .. import dialects as _dl
                names = [n for n in sorted(_dl.master()) if n != "en"]
                d = names[i % len(names)]
                L = noisy.translate(noisy.gen_tables(r, 16) if i % 3 == 0 else noisy.gen(r, 20), d, r)
                if L is None:
                    M.count("noisy_dialects.skipped_ambiguous")
                    continue
                M.hist("noisy_dialects", d)
            nl = r.choice(["\n", "\n", "\r\n"])
            text = noisy.text_of(L, nl=nl, final=r.random() < 0.8 or noisy.pl_of(L[-1][1]).text == "")
            if env is not None:
                check_noisy(L, text, M, {"kind": "shard", "spec": spec, "text": text}, env=env)
            else:
                check_noisy(L, text, M, {"kind": "noisy", "L": L, "nl": nl, "text": text})
            if i % 997 == 0:
                M.sample({"text": short(text, 300)})
    elif fam == "faulted":
        for i in range(spec["start"], spec["start"] + spec["n"]):
            r = rng(seed, ID, fam, i)
            R = docmodel.render(r, size=r.choice(["small", "medium"]))
            text, ops = workloads.faulted(r, R)
            check_generic(text, M, {"kind": "text", "text": text, "ops": ops})
    elif fam == "corpus":
        for b in corpus.bad():
            case = {"kind": "text", "text": b["text"], "path": b["path"]}
            o = check_generic(b["text"], M, case)
            want = [(e["parseError"]["source"]["location"], e["parseError"]["message"]) for e in b["errors"]]
            got = [(e["location"], e["message"]) for e in o.errors]
            M.count("corpus_bad_compared")
            if got != want:
                M.violation("C14.corpus", {"what": "errors differ from the golden .errors.ndjson", "path": b["path"], "got": got[:3], "want": want[:3]}, case)
        for g in corpus.good():
            o = observe.parse_observed(g["text"])
            M.case(h64(g["text"]))
            if o.status != "ok":
                M.violation("C14.corpus", {"what": "good corpus document rejected", "path": g["path"], "errors": o.err_messages()[:2]}, {"kind": "text", "text": g["text"]})


def check_generic(text, M, case):
    """Rejected documents without a simulator prediction: G8 + mode relation + envelope mapping."""
    M.case(h64(text))
    o = observe.parse_observed(text, False)
    M.hist("generic.outcome", o.status)
    apply_parse_monitors(o, M, case, G_DECIDING)
    o2 = observe.parse_observed(text, True)
    M.count("stop_mode_compared")
    apply_parse_monitors(o2, M, dict(case, stop=True), {"G8", "G1"})
    if o.status == "errors":
        first = o.errors[0]
        if o2.status != "single" or o2.errors[0]["message"] != first["message"] or o2.errors[0]["location"] != first["location"] \
                or o2.errors[0]["type"] != first["type"]:
            M.violation("C14.stop", {"what": "stop-at-first-error does not raise precisely the first error of collecting mode",
                                     "stop": [o2.status] + o2.err_messages()[:1], "collecting_first": first["message"]}, case,
                        mechanism=observe.f1_mechanism(o))
    elif o.status == "ok" and o2.status != "ok":
        M.violation("C14.stop", {"what": "accepted document rejected in stop-at-first-error mode"}, case)
    if o.status in ("ok", "errors"):
        enum_check(text, o.errors, M, case, o.status == "ok")
    return o


def replay(case, M):
    if case["kind"] == "shard":
        run_shard(case["spec"], M)
    elif case["kind"] == "noisy":
        check_noisy([tuple(x) for x in case["L"]], case["text"], M, case)
    else:
        check_generic(case["text"], M, case)


def finish(M, tier):
    return {"exhaustive": True,
            "exhaustive_subspace": "42 parser states x 14 next-line kinds (13 line kinds + EOF) x 2 indentations as real text",
            "state_kind_pairs_observed": len(M.sets.get("pairs", ())),
            "unexpected_pairs_observed": len(M.sets.get("unexpected_pairs", ())),
            "unexpected_pairs_in_table_incl_infeasible": M.notes.get("unexpected_pairs_in_table"),
            "transitions_covered": len(M.sets.get("transitions", ()))}
