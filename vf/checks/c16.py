"""C16 — layout is meaning-neutral: line endings, indentation, padding, blank lines."""
from __future__ import annotations

import copy
import os
import re

from .. import observe, corpus, noisy, docmodel, workloads, probe
from ..common import h64, short
from .base import rng, shards

from gherkin.parser import Parser
from gherkin.ast_builder import AstBuilder
from gherkin.pickles.compiler import Compiler
from gherkin.stream.id_generator import IdGenerator
from gherkin.token_scanner import TokenScanner
from gherkin.stream.source_events import source_event
from gherkin.stream.gherkin_events import GherkinEvents
from gherkin.errors import ParserError, CompositeParserException

ID = "C16"
LEVEL = "exploration"
RULE = ("Metamorphic relations between the results (AST, pickles, errors) of a document D and of t(D): CRLF<->LF and string<->file "
        "(TokenScanner(path), source_event(path)): everything equal; trailing blanks on keyword/step/tag/row/delimiter lines: "
        "everything equal; extra indentation of such lines (doc string as one block): equal after erasing columns (also in '(l:c)' "
        "message prefixes); blank line inserted where it is read as Empty: equal after erasing line numbers; comment line (not a "
        "language header) inserted directly before a keyword/step/tag/row/opening-delimiter line: equal after erasing line numbers "
        "plus exactly that comment at that line, column 1; final line break added/removed: AST equal.  Applied at EVERY admissible "
        "position of corpus, rendered (W2), fault-injected (W3) and noisy (W4) documents whose carriage returns occur only in CRLF "
        "pairs.  Admissibility is decided from the kinds the original parse delivered to the builder (and, for blank insertion, "
        "from the kind the inserted line received).  Also: documents with byte-order marks, zero-width/no-break blanks, Unicode "
        "line separators, C0/C1 controls and NUL at the start, at line starts/ends and inside words (string vs file above all); "
        "documents in which one line of each kind — delivered or reported as unexpected — has exactly n characters, n = 1..200 and "
        "around 256/512/1024, with 1..4 trailing blanks or tabs, LF and CRLF, and 1..4 blanks of indentation; documents with many "
        "identical lines.  Distinct = (document hash, transformation, position).")
ASSUMPTIONS = ["domain: documents whose CR occur only in CRLF pairs; file loading skipped for texts that cannot be encoded as UTF-8",
               "kinds of lines are those the original parse delivered to the builder (recorded by the build probe); lines that were reported as errors or never reached are not transformed"]
DECIDING = ["pairs_compared", "locale_documents", "edge_documents", "long_line_documents", "rel.crlf", "rel.file", "rel.trailing", "rel.indent", "rel.blank", "rel.comment", "rel.final_newline"]
KW = {"FeatureLine", "RuleLine", "BackgroundLine", "ScenarioLine", "ExamplesLine", "StepLine", "TagLine", "TableRow", "DocStringSeparator"}
COMMENT = "   #inserted comment \U0001F600"


class Rec(AstBuilder):
    def reset(self):
        super().reset()
        self.toks = []

    def build(self, token):
        self.toks.append(("EOF" if token.eof() else token.location["line"], token.matched_type))
        super().build(token)


def run(src):
    """-> (status, ast|errors, pickles|None, {line: kind})"""
    idg = IdGenerator()
    b = Rec(idg)
    p = Parser(b)
    try:
        d = p.parse(src)
        d = dict(d)
        d["uri"] = "u"
        pk = Compiler(idg).compile(d)
        return ("ok", d, pk, dict(b.toks))
    except CompositeParserException as e:
        return ("err", [{"location": dict(x.location), "m": str(x)} for x in e.errors], None, dict(b.toks))
    except ParserError as e:
        return ("err", [{"location": dict(e.location), "m": str(e)}], None, dict(b.toks))


def strip_loc(o, lines=True, cols=True):
    if isinstance(o, dict):
        r = {}
        for k, v in o.items():
            if k == "location":
                v = dict(v)
                if lines:
                    v.pop("line", None)
                if cols:
                    v.pop("column", None)
                r[k] = v
            else:
                r[k] = strip_loc(v, lines, cols)
        return r
    if isinstance(o, (list, tuple)):
        return [strip_loc(x, lines, cols) for x in o]
    if isinstance(o, str):
        return re.sub(r"^\((\d+):(\d+)\): ", lambda m: "(%s:%s): " % ("L" if lines else m.group(1), "C" if cols else m.group(2)), o)
    return o


def same(a, b, lines=False, cols=False):
    return strip_loc(a[:3], lines, cols) == strip_loc(b[:3], lines, cols) if (lines or cols) else a[:3] == b[:3]


F2 = "F2-step-text-completes-a-longer-keyword"
_LANG_RE = re.compile(r"^\s*#\s*language\s*:\s*([a-zA-Z\-_]+)\s*$")


def f2_mechanism(lf, base):
    """Finding F2: the document has a step line L such that L with one blank appended is prefixed by ANOTHER listed step
    keyword than L itself (fr 'Et que' -> 'Et ' + 'que', but 'Et que ' -> 'Et que ' + ''): by the keyword rule of C05 the
    two lines carry different keywords, so trailing blanks on that step line cannot be meaning-neutral.  Decided from the
    language table and the text alone, never from the code under test."""
    from .. import dialects
    lang = "en"
    for line in lf.split("\n")[:5]:
        m = _LANG_RE.match(line)
        if m:
            lang = m.group(1)
            break
        if line.strip() and not line.lstrip().startswith("#"):
            break
    spec = dialects.master().get(lang)
    if spec is None:
        return None
    types = base[3]
    for i, line in enumerate(lf.split("\n")):
        if types.get(i + 1) != "StepLine":
            continue
        t = line.strip()
        a = dialects.expected_step(spec, t)
        b = dialects.expected_step(spec, t + " ")
        if a and b and a[0] != b[0]:
            return F2
    return None


def check_document(lf, M, case, budget=400):
    """All relations on one LF document (no CR at all)."""
    M.case(h64(lf))
    base = run(lf)
    M.hist("documents", base[0])
    viol = lambda rel, detail: M.violation("C16." + rel, dict(detail, relation=rel), dict(case, relation=rel, text=lf),
                                           mechanism=f2_mechanism(lf, base) if rel == "trailing" else None)
    n = 0
    # 1. CRLF
    r = run(lf.replace("\n", "\r\n"))
    n += 1
    M.count("rel.crlf")
    if r[:3] != base[:3]:
        viol("crlf", {"what": "CRLF line endings change the result", "lf": short(base[1], 200), "crlf": short(r[1], 200)})
    # ... also when the caller wraps the text in a TokenScanner object himself
    for variant, text_v in (("LF", lf), ("CRLF", lf.replace("\n", "\r\n"))):
        if not os.path.exists(text_v):
            r = run(TokenScanner(text_v))
            n += 1
            M.count("rel.crlf")
            if r[:3] != base[:3]:
                viol("crlf", {"what": "handing the %s text over as a TokenScanner object changes the result" % variant, "string": short(base[1], 200), "scanner": short(r[1], 200)})
    # a result the caller keeps must not change when the same Parser object parses the next (transformed) document
    keep_p = Parser(AstBuilder(IdGenerator()))
    try:
        kept = keep_p.parse(lf)
    except ParserError:
        kept = None
    if kept is not None:
        snap = copy.deepcopy(kept)
        try:
            keep_p.parse(COMMENT + "\n\n" + lf.replace("\n", "\r\n") + "# one more comment\n")
        except ParserError:
            pass
        n += 1
        M.count("rel.kept_result")
        if kept != snap:
            viol("kept_result", {"what": "the document returned for the original text changed when the same Parser object parsed the transformed text",
                                 "differences": short(docmodel.diff(snap, kept)[:3], 300)})
    # 2. file vs string (LF and CRLF files)
    try:
        lf.encode("utf8")
        enc = True
    except UnicodeEncodeError:
        enc = False
    if enc:
        for variant, data in (("lf", lf), ("crlf", lf.replace("\n", "\r\n"))):
            path = os.path.abspath("c16-%s.feature" % variant)
            with open(path, "wb") as f:
                f.write(data.encode("utf8"))
            try:
                sc = TokenScanner(path)
                idg = IdGenerator()
                try:
                    d = Parser(AstBuilder(idg)).parse(sc)
                    d = dict(d)
                    d["uri"] = "u"
                    rf = ("ok", d, Compiler(idg).compile(d))
                except CompositeParserException as e:
                    rf = ("err", [{"location": dict(x.location), "m": str(x)} for x in e.errors], None)
                n += 1
                M.count("rel.file")
                if rf != base[:3]:
                    viol("file", {"what": "loading the document from a file (TokenScanner(path), %s) changes the result" % variant,
                                  "string": short(base[1], 200), "file": short(rf[1], 200)})
                ev = source_event(path)
                M.count("rel.file")
                if ev["source"]["data"] != data:
                    viol("file", {"what": "source_event(path) does not return the file's text unchanged (%s)" % variant})
                else:
                    envs = list(GherkinEvents(GherkinEvents.Options(False, True, True)).enum(ev))
                    if base[0] == "ok":
                        want = [{"gherkinDocument": dict(base[1], uri=path)}] + [{"pickle": dict(p, uri=path)} for p in base[2]]
                    else:
                        want = [{"parseError": {"source": {"uri": path, "location": e["location"]}, "message": e["m"]}} for e in base[1]]
                    if envs != want:
                        viol("file", {"what": "stream result of source_event(path) (%s) differs from the string result" % variant})
            finally:
                os.remove(path)
    # 7. final line break
    alt = lf[:-1] if lf.endswith("\n") else lf + "\n"
    r = run(alt)
    n += 1
    M.count("rel.final_newline")
    if base[0] == "ok" and (r[0] != "ok" or r[1] != base[1]):
        viol("final_newline", {"what": "presence/absence of the final line break changes the AST", "removed": lf.endswith("\n")})
    lines = lf.split("\n")
    if lines and lines[-1] == "":
        lines = lines[:-1]
    types = base[3]
    nl = "\n" if lf.endswith("\n") or not lf else ""
    join = lambda L: "\n".join(L) + ("\n" if lf.endswith("\n") else "")
    # which lines are inside a doc string (between an opening and its closing delimiter)?
    inside = set()
    opening = set()
    open_at = None
    for i in range(len(lines)):
        t = types.get(i + 1)
        if t == "DocStringSeparator":
            if open_at is None:
                open_at = i
                opening.add(i)
            else:
                open_at = None
        elif open_at is not None and t == "Other":
            inside.add(i)
    # 3. trailing blanks: on every such line at once, and on single lines
    L2 = [l + "  \t" if types.get(i + 1) in KW else l for i, l in enumerate(lines)]
    r = run(join(L2))
    n += 1
    M.count("rel.trailing")
    if r[:3] != base[:3]:
        viol("trailing", {"what": "trailing blanks on keyword/step/tag/row/delimiter lines change the result"})
    # 4. indentation: every such line (doc strings as blocks) at once, then single lines
    def indent_all(pred):
        out = []
        for i, l in enumerate(lines):
            t = types.get(i + 1)
            if (t in KW or i in inside) and pred(i):
                out.append("   " + l)
            else:
                out.append(l)
        return out
    r = run(join(indent_all(lambda i: True)))
    n += 1
    M.count("rel.indent")
    if not same(r, base, cols=True):
        viol("indent", {"what": "indenting keyword/step/tag/row/doc-string lines changes more than columns",
                        "base": short(strip_loc(base[1], False, True), 200), "got": short(strip_loc(r[1], False, True), 200)})
    # position-wise transformations
    positions = list(range(len(lines) + 1))
    if len(positions) > budget:
        step = len(positions) / budget
        positions = sorted(set(int(k * step) for k in range(budget)))
    for i in positions:
        t = types.get(i + 1) if i < len(lines) else None
        # 3'/4' single line
        if i < len(lines) and t in KW and i not in inside:
            if t != "DocStringSeparator":
                Ls = lines[:i] + [lines[i] + " \t "] + lines[i + 1:]
                r = run(join(Ls))
                n += 1
                M.count("rel.trailing")
                if r[:3] != base[:3]:
                    viol("trailing", {"what": "trailing blanks on one line change the result", "line": i + 1, "kind": t})
                Li = lines[:i] + ["  " + lines[i]] + lines[i + 1:]
                r = run(join(Li))
                n += 1
                M.count("rel.indent")
                if not same(r, base, cols=True):
                    viol("indent", {"what": "indenting one line changes more than columns", "line": i + 1, "kind": t})
        # 6. comment directly before a keyword/step/tag/row/opening-delimiter line
        if i < len(lines) and t in KW and i not in inside and (t != "DocStringSeparator" or i in opening):
            L3 = lines[:i] + [COMMENT] + lines[i:]
            r = run(join(L3))
            n += 1
            M.count("rel.comment")
            if base[0] == "ok":
                ok = r[0] == "ok"
                if ok:
                    a = strip_loc(r[1])
                    e = strip_loc(base[1])
                    extra = [c for c in r[1]["comments"] if c["text"] == COMMENT]
                    a["comments"] = [c for c in a["comments"] if c["text"] != COMMENT]
                    ok = (a == e and len(r[1]["comments"]) == len(base[1]["comments"]) + 1 and
                          extra == [{"location": {"line": i + 1, "column": 1}, "text": COMMENT}] and
                          strip_loc(r[2]) == strip_loc(base[2]))
                    # later locations shift by exactly one line
                    if ok:
                        shifted = shift_lines(base[1], i + 1, 1)
                        a2 = copy.deepcopy(r[1])
                        a2["comments"] = [c for c in a2["comments"] if c["text"] != COMMENT]
                        ok = a2 == shifted
                if not ok:
                    viol("comment", {"what": "a comment line inserted directly before a %s line changes more than line numbers + that comment" % t,
                                     "line": i + 1, "status": r[0], "errors": short(r[1], 200) if r[0] == "err" else None})
            else:
                if r[0] != "err" or strip_loc(r[1]) != strip_loc(base[1]) or [e["location"].get("line") for e in r[1]] != \
                        [e["location"].get("line") + (1 if e["location"].get("line") > i else 0) for e in base[1]]:
                    viol("comment", {"what": "a comment line inserted before a %s line of a rejected document changes the errors" % t, "line": i + 1,
                                     "got": short(r[1], 200), "base": short(base[1], 200)})
        # 5. blank line; admissible iff it is read as Empty in the transformed parse
        if i not in inside:
            L4 = lines[:i] + [""] + lines[i:]
            r = run(join(L4) if (i < len(lines) or lf.endswith("\n")) else "\n".join(L4))
            if r[3].get(i + 1) != "Empty":
                M.count("blank_insertions_skipped_not_empty")
                continue
            n += 1
            M.count("rel.blank")
            if r[0] != base[0] or not same(r, base, lines=True):
                viol("blank", {"what": "a blank line inserted where it is read as Empty changes more than line numbers", "line": i + 1})
            elif base[0] == "ok" and r[1] != dict(shift_lines(base[1], i + 1, 1)):
                viol("blank", {"what": "a blank line does not shift later locations by exactly one line", "line": i + 1})
    M.count("pairs_compared", n)


def shift_lines(o, from_line, by):
    if isinstance(o, dict):
        out = {}
        for k, v in o.items():
            if k == "location" and isinstance(v, dict):
                v = dict(v)
                if v.get("line", 0) >= from_line:
                    v["line"] += by
                out[k] = v
            else:
                out[k] = shift_lines(v, from_line, by)
        return out
    if isinstance(o, list):
        return [shift_lines(x, from_line, by) for x in o]
    return o


def plan(tier, seed):
    q = tier == "quick"
    b = 40 if q else 400
    specs = [{"family": "corpus", "seed": seed, "n": 1, "part": k, "parts": 16, "budget": b} for k in range(16)]
    specs += shards("docs", 160 if q else 12000, 8 if q else 200, seed, budget=b)
    specs += shards("noisy", 200 if q else 6000, 20 if q else 300, seed, budget=b)
    specs += shards("faulted", 80 if q else 4000, 8 if q else 100, seed, budget=b)
    specs += shards("edges", len(EDGE_CHARS) * len(EDGE_BASES) * 4, 40, seed, budget=b)
    lengths = list(range(1, 201)) + [255, 256, 257, 511, 512, 513, 1023, 1024, 1025]
    for k in range(0, len(lengths), 14):
        specs.append({"family": "long_lines", "lengths": lengths[k:k + 14], "seed": seed, "n": 14, "budget": b})
    specs.append({"family": "locale", "seed": seed, "n": 1})
    from .. import dialects as _dl
    names = sorted(_dl.master())
    for k in range(0, 80, 10):
        specs.append({"family": "keyword_tails", "dialects": names[k:k + 10], "seed": seed, "n": 10, "budget": b})
    return specs


LOCALE_WORKER = """
import json, sys
sys.path.insert(0, sys.argv[1])
from gherkin.parser import Parser
from gherkin.token_scanner import TokenScanner
from gherkin.errors import ParserError, CompositeParserException
out = []
for p in sys.argv[2:]:
    try:
        out.append(["ok", Parser().parse(TokenScanner(p))])
    except CompositeParserException as e:
        out.append(["err", [str(x) for x in e.errors]])
    except ParserError as e:
        out.append(["err", [str(e)]])
    except Exception as e:
        out.append(["crash", repr(e)[:200]])
sys.stdout.write(json.dumps(out))
"""


def run_locale(spec, M):
    """Loading a document from a file gives what the string gives — also in a process whose locale is not UTF-8 (C locale,
    UTF-8 mode off): the file's encoding is UTF-8 whatever the locale says."""
    import json
    import subprocess
    import sys
    from ..common import PY_ROOT
    r = rng(spec["seed"], ID, "locale")
    texts = ["# language: fr\nFonctionnalité: été\n  Scénario: ça\n    Étant donné que l'élève\n",
             "# language: ru\nФункция: ф\n  Сценарий: с\n    Допустим ж\n", "# language: ja\n機能: 漢\n  シナリオ: し\n    前提 あ\n",
             "Feature: \U0001F600\n  Scenario: \u00e9\n    Given \u2028 x\n      | \u00df |\n", "Feature: f\n  Sc\u00e9nario: not a keyword here\n  junk \u00e9\n"]
    texts += [docmodel.render(r, size="small", nl="\n").text for _ in range(8)]
    texts = [t for t in texts if observe.file_loadable(t) and not t.isascii()]
    paths = []
    for k, t in enumerate(texts):
        p = os.path.abspath("c16-locale-%d.feature" % k)
        with open(p, "wb") as fh:
            fh.write(t.encode("utf8"))
        paths.append(p)
    env = {k: v for k, v in os.environ.items() if k not in ("PYTHONIOENCODING", "PYTHONUTF8", "LC_ALL", "LANG", "LC_CTYPE", "PYTHONCOERCECLOCALE", "PYTHONPATH")}
    env.update(LC_ALL="C", PYTHONUTF8="0", PYTHONCOERCECLOCALE="0", PYTHONDONTWRITEBYTECODE="1")
    try:
        pr = subprocess.run([sys.executable, "-B", "-c", LOCALE_WORKER, PY_ROOT] + paths, capture_output=True, env=env, timeout=300)
        if pr.returncode != 0:
            M.inconc("locale worker failed: %s" % pr.stderr.decode("ascii", "replace")[-300:])
            return
        res = json.loads(pr.stdout.decode("ascii"))
    finally:
        for p in paths:
            os.remove(p)
    for t, (st, val) in zip(texts, res):
        base = run(t)
        M.case(h64(["locale", t]))
        M.count("rel.file")
        M.count("locale_documents")
        M.count("pairs_compared")
        want = ["ok", json.loads(json.dumps({k: v for k, v in base[1].items() if k != "uri"}))] if base[0] == "ok" else ["err", [e["m"] for e in base[1]]]
        if [st, val] != want:
            M.violation("C16.file", {"what": "a document loaded from a file in a process with the C locale (UTF-8 mode off) differs from the same text given as a string",
                                     "file": short([st, val], 240), "string": short(want, 240), "relation": "file"}, {"kind": "text", "family": "locale", "text": t, "relation": "file"})


def keyword_tail_documents(d):
    """Documents in dialect d with a step line that consists of a keyword and, as its whole text, the rest of a LONGER listed
    keyword that begins with it ('A tiež' for sk 'A ' / 'A tiež '): the line where 'first listed' and 'longest' matching part."""
    from .. import dialects as dl
    spec = dl.master()[d]
    kws = []
    for k, _ in dl.step_keywords(spec):
        if k not in kws:
            kws.append(k)
    out = []
    for long_k in kws:
        t = long_k.rstrip()
        if t == long_k:
            continue
        short = dl.expected_step(spec, t)
        if short is None or short[0] == long_k:
            continue
        lf = "# language: %s\n%s: f\n  %s: s\n    %sx\n    %s\n    %sy\n" % (d, spec["feature"][0], spec["scenario"][0], kws[-1] if kws[-1] != "* " else kws[0], t, kws[0] if kws[0] != "* " else kws[-1])
        out.append((long_k, lf, 5))
    return out


# characters that some layer might treat specially although Gherkin does not: byte-order marks, zero-width and no-break
# blanks, Unicode line/paragraph separators and the C0/C1 controls that str.splitlines() splits on, NUL
EDGE_CHARS = ["\ufeff", "\ufffe", "\u200b", "\xa0", "\u2028", "\u2029", "\x85", "\x0b", "\x0c", "\x1c", "\x1d", "\x1e", "\x00", "\x1a"]
EDGE_BASES = [
    "Feature: f\n  Scenario: s\n    Given x\n      | a | b |\n    Then y\n",
    "# language: fr\nFonctionnalité: f\n  @t1 @t2\n  Scénario: s\n    Soit x\n      \"\"\"\n      doc\n      \"\"\"\n",
    "Feature: f\n  Scenario: s\n    Given x\n      | a |\n  junk line\n  Examples:\n",
    "@a\nFeature: f\n\n  some description\n\n  Rule: r\n    Example: e\n      * z\n",
]


def edge_document(i):
    """EDGE_BASES[b] with EDGE_CHARS[c] inserted at the very start / at the start of a line / at the end of a line /
    inside a word."""
    where = i % 4
    c = EDGE_CHARS[(i // 4) % len(EDGE_CHARS)]
    base = EDGE_BASES[(i // (4 * len(EDGE_CHARS))) % len(EDGE_BASES)]
    lines = base.split("\n")[:-1]
    k = (i * 7) % len(lines)
    if where == 0:
        return c + base
    if where == 1:
        lines[k] = c + lines[k]
    elif where == 2:
        lines[k] = lines[k] + c
    else:
        m = len(lines[k]) - 1
        lines[k] = lines[k][:m] + c + lines[k][m:]
    return "\n".join(lines) + "\n"


def long_line_documents(n):
    """Documents in which one line has exactly n characters after trimming: a free-text line and a misplaced keyword line
    that are reported as unexpected (their text is quoted in the message), and accepted lines of every kind."""
    fill = lambda k: ("x" * 9 + " ") * (k // 10) + "y" * (k % 10) if k > 0 else ""
    fit = lambda prefix: prefix + fill(n - len(prefix)).rstrip().ljust(n - len(prefix), "z") if n >= len(prefix) else None
    out = []
    junk = fill(n).rstrip().ljust(n, "z")
    out.append(("free text after a table row", "Feature: f\n  Scenario: s\n    Given x\n      | a |\n  %s\n    Then y\n" % junk, 5, None))
    t = fit("Background: ")
    if t:
        out.append(("misplaced Background line", "Feature: f\n  Scenario: s\n    Given x\n  %s\n    Given y\n" % t, 4, "BackgroundLine"))
    t = fit("Examples: ")
    if t:
        out.append(("misplaced Examples line", "Feature: f\n  Background:\n    Given x\n    %s\n      | a |\n" % t, 4, "ExamplesLine"))
    t = fit("Scenario: ")
    if t:
        out.append(("long scenario name", "Feature: f\n  %s\n    Given x\n" % t, 2, "ScenarioLine"))
    t = fit("Given ")
    if t:
        out.append(("long step", "Feature: f\n  Scenario: s\n    %s\n" % t, 3, "StepLine"))
    t = fit("| ")
    if t and n >= 5:
        out.append(("long row", "Feature: f\n  Scenario: s\n    Given x\n      %s |\n" % t[:-2], 4, "TableRow"))
    t = fit("@")
    if t:
        out.append(("long tag", "Feature: f\n  %s\n  Scenario: s\n    Given x\n" % t.replace(" ", "_"), 2, "TagLine"))
    return out


def check_long_line(what, lf, line_no, kind, M, case):
    """check_document plus, for the line of known kind at line_no (delivered or reported as unexpected): 1..4 trailing blanks
    and 1..3 blanks of extra indentation, LF and CRLF."""
    check_document(lf, M, case, budget=case.get("budget", 40))
    if kind is None:
        return
    base = run(lf)
    lines = lf.split("\n")
    viol = lambda rel, detail: M.violation("C16." + rel, dict(detail, relation=rel, line_kind=kind), dict(case, relation=rel, text=lf),
                                           mechanism=f2_mechanism(lf, base) if rel == "trailing" else None)
    for k in (1, 2, 3, 4):
        # blanks of every sort the library itself trims (space, tab, and for k <= 2 no-break, em, ideographic blank, form feed)
        for blanks in (" " * k, "\t" * k) + ((("\u00a0" * k, "\u2003" * k, "\u3000" * k, " \x0c" * k, "\u00a0 \t"[:k + 1])) if k <= 2 else ()):
            L2 = list(lines)
            L2[line_no - 1] += blanks
            for nl in ("\n", "\r\n"):
                r = run("\n".join(L2).replace("\n", nl))
                M.count("rel.trailing")
                M.count("pairs_compared")
                if r[:3] != base[:3]:
                    viol("trailing", {"what": "%d trailing blank(s) on a %s line (%s) change the result" % (k, kind, what),
                                      "base": short(base[1], 240), "got": short(r[1], 240)})
        L3 = list(lines)
        L3[line_no - 1] = " " * k + L3[line_no - 1]
        r = run("\n".join(L3))
        M.count("rel.indent")
        M.count("pairs_compared")
        if not same(r, base, cols=True):
            viol("indent", {"what": "indenting a %s line (%s) by %d changes more than columns" % (kind, what, k),
                            "base": short(strip_loc(base[1], False, True), 240), "got": short(strip_loc(r[1], False, True), 240)})


def run_shard(spec, M):
    fam, seed = spec["family"], spec["seed"]
    if fam == "corpus":
        docs = corpus.good() + corpus.bad()
        for k, g in enumerate(docs):
            if k % spec["parts"] != spec["part"]:
                continue
            src = g["text"]
            if "\r" in src.replace("\r\n", ""):
                M.count("skipped_lone_cr")
                continue
            check_document(src.replace("\r\n", "\n"), M, {"kind": "text", "family": "corpus", "path": g["path"]}, budget=spec.get("budget", 400))
    elif fam == "locale":
        run_locale(spec, M)
    elif fam == "keyword_tails":
        for d in spec["dialects"]:
            for long_k, lf, line_no in keyword_tail_documents(d):
                M.count("keyword_tail_documents")
                M.hist("keyword_tail_dialects", d)
                check_long_line("step whose text is the rest of the longer keyword %r" % long_k, lf, line_no, "StepLine", M,
                                {"kind": "long_line", "family": fam, "what": "keyword tail " + long_k, "line_no": line_no, "line_kind": "StepLine",
                                 "budget": spec.get("budget", 40)})
    elif fam == "long_lines":
        for n in spec["lengths"]:
            for what, lf, line_no, kind in long_line_documents(n):
                M.count("long_line_documents")
                check_long_line(what, lf, line_no, kind, M, {"kind": "long_line", "family": fam, "n": n, "what": what, "line_no": line_no,
                                                             "line_kind": kind, "budget": spec.get("budget", 40)})
    else:
        for i in range(spec["start"], spec["start"] + spec["n"]):
            r = rng(seed, ID, fam, i)
            if fam == "docs":
                R = docmodel.render(r, size=r.choice(["small", "medium"]), nl="\n", special=0.25 if i % 2 else 0.0, deep=(i % 4 == 1),
                                    dup=0.7 if i % 4 == 3 else 0.0)
                text = R.text
            elif fam == "edges":
                text = edge_document(i)
                M.count("edge_documents")
            elif fam == "noisy":
                text = noisy.text_of(noisy.gen_any(r, 25), final=r.random() < 0.8)
            else:
                R = docmodel.render(r, size="small", nl="\n")
                text, _ = workloads.faulted(r, R)
            if "\r" in text:
                M.count("skipped_contains_cr")
                continue
            check_document(text, M, {"kind": "text", "family": fam, "index": i}, budget=spec.get("budget", 400))
            if i % 97 == 0:
                M.sample({"family": fam, "text": short(text, 300)})


def replay(case, M):
    if case.get("kind") == "long_line":
        check_long_line(case["what"], case["text"], case["line_no"], case["line_kind"], M, case)
    else:
        check_document(case["text"], M, case)
