"""C13 — doc strings are opaque: verbatim content, closed only by their own delimiter."""
from __future__ import annotations

from .. import observe, dialects
from ..common import h64, short
from .base import rng, shards, apply_parse_monitors, cover_transitions, ReusedEnv
from . import doccheck

ID = "C13"
LEVEL = "exploration"
RULE = ("Documents with one doc string (in a feature/rule background, scenario, outline or rule scenario step) are rendered from a "
        "model: delimiter (\"\"\" or ```), media type (absent, plain, with blanks, with placeholder), opening indentation, 0..30 content "
        "lines drawn from every kind of Gherkin-looking line of the active dialect (keywords, tags incl. '@bad tag', comments incl. "
        "language headers, table rows, blank and white-space-only lines, the other delimiter, the escaped active delimiter, lines "
        "indented more/less/equally, tabs) and arbitrary Unicode, followed by every kind of next element.  Checked: (1) AST "
        "content/mediaType/delimiter == intent; (2) everything after the closing delimiter equals the same document with an empty "
        "doc string (line numbers shifted); (3) matcher hook: while a delimiter is active no match_* other than "
        "DocStringSeparator/Other/EOF returns True and delimiter/indent state changes only in the separator test; (4) G4/G3.  "
        "Distinct = hash of the source.")
ASSUMPTIONS = ["content lines never start (after their own indentation) with the active delimiter — that would close the doc string by definition",
               "expected content: opening indentation removed; a less-indented line loses all of its own; only the escaped form of the active delimiter is unescaped"]
DECIDING = ["docstrings_compared", "opacity_calls_observed", "continuations_compared", "interleaved_parses", "markdown_docstring_probes"]

NEXT = ["none", "step", "table_is_not_allowed_text", "scenario", "tagged_scenario", "examples", "tagged_examples", "rule", "comment_blank_step", "another_docstring_step"]
PLACES = ["scenario", "background", "outline", "rule_scenario", "rule_background"]


def doc_string_lines(rc, spec, steps, i, delim, mt, opener_pad, closer, empty):
    """Lines of one doc string (opening, content, closing) and the content the statement prescribes."""
    other = "```" if delim == '"""' else '"""'
    title = lambda role, name: rc.choice(spec[role]) + ": " + name
    kw = lambda: rc.choice(steps)[0]
    pool = [title("feature", "x"), title("scenario", "x"), title("examples", "x"), title("rule", "x"), title("background", "x"),
            "@tag here", "@bad tag", "# comment", "#language: fr", "# language: zz", "| a | b |", "| ragged |", kw() + "x", "* x",
            '\\"\\"\\"', "\\`\\`\\`", other, other + "json", "x" + delim, "", " ", "\t", "   ", '\\"\\"\\" and \\"\\"\\"', "\\", "<a>",
            "\\`\\`\\` and \\`\\`\\`", 'mixed \\"\\"\\" \\`\\`\\`',
            # look-alikes of the delimiters (full-width, typographic, Greek, primes, two instead of three) and delimiters behind
            # an invisible character: all of it is content
            "\uff02\uff02\uff02", "\uff40\uff40\uff40", "\u1fef\u1fef\u1fef", "\u201d\u201d\u201d", "\u201c\u201c\u201d", "'''", '""', '" " "', "``",
            "\u00b4\u00b4\u00b4", "\u02ba\u02ba\u02ba", "\u2033\u2033\u2033", "\ufeff" + delim, "\u200b" + delim, "\u200f" + delim, "\u2060" + other,
            "\ufeff", "\ufefftext after a byte order mark", "\u200btext"]
    lines = [i + delim + opener_pad[0] + mt + opener_pad[1]]
    content = []
    n = 0 if empty else rc.choice([0, 1, 2, 3, 5, 8, 30]) if rc.random() < 0.3 else rc.randint(0, 6)
    for _ in range(n):
        c = rc.random()
        if c < 0.7:
            body = rc.choice(pool)
        else:
            body = "".join(rc.choice(["a", " ", "é", "\U0001F600", "|", "@", "#", '"', "`", "\\", ":", "\t", "\u3000", "\x0b", "\ufeff", "\u200b", "\uff02", "\u2028", "\x85", "\x1c"]) for _ in range(rc.randint(0, 10)))
        rel = rc.choice(["same", "more", "less"])
        if rel == "same":
            li = i
        elif rel == "more":
            li = i + rc.choice([" ", "  ", "\t"])
        else:
            li = i[:rc.randint(0, len(i))] if i else i
        line = li + body
        if line.lstrip().startswith(delim):
            line = li + "x" + body
        lines.append(line)
        if line.strip() == "":
            exp = line[len(i):] if len(line) >= len(i) else ""
        else:
            own = len(line) - len(line.lstrip())
            exp = line[len(i):] if own >= len(i) else line.lstrip()
        exp = exp.replace('\\"\\"\\"', '"""') if delim == '"""' else exp.replace("\\`\\`\\`", "```")
        content.append(exp)
    lines.append(i + delim + closer)
    return lines, content


def build(r, dialect, empty=False, fixed=None):
    """-> (text, intent of the FIRST doc string incl. the list `all` of every doc string's intent)"""
    import random as _random
    spec = dialects.master()[dialect]
    steps = dialects.step_keywords(spec)
    def title(role, name):
        return r.choice(spec[role]) + ": " + name
    kw = lambda: r.choice(steps)[0]
    place = r.choice(PLACES)
    lines = ([] if dialect == "en" else ["# language: " + dialect]) + [title("feature", "f")]
    if place.startswith("rule"):
        lines.append("  " + title("rule", "r"))
    if place.endswith("background"):
        lines.append("  " + title("background", "b"))
    else:
        lines.append("  " + title("scenarioOutline" if place == "outline" else "scenario", "s"))
    ndoc = r.choice([1, 1, 2, 3])
    intents = []
    for k in range(ndoc):
        lines.append("    " + kw() + "step with doc string %d" % k)
        if r.random() < 0.2:
            lines.append(r.choice(["", "    # between step and doc string"]))
        i = "".join(r.choice("  \t") for _ in range(r.choice([0, 2, 4, 6, 7])))
        delim = r.choice(['"""', "```"])
        mt = r.choice(["", "", "json", "text/x y", "<a>", "application/x;v=1"])
        opener_pad = (r.choice(["", " ", "\t"]), r.choice(["", "  "]))
        closer = r.choice(["", "", " trailing text is ignored"])
        # content lines draw from their own generator so that the variant with an empty first doc string
        # makes exactly the same choices everywhere else
        rc = _random.Random(r.random())
        opening_line = len(lines) + 1
        dl, content = doc_string_lines(rc, spec, steps, i, delim, mt, opener_pad, closer, empty and k == 0)
        lines += dl
        intents.append({"content": "\n".join(content), "delimiter": delim, "mediaType": mt or None,
                        "location": {"line": opening_line, "column": len(i) + 1}, "opening_line": opening_line,
                        "closing_line": len(lines), "n_content": len(content)})
    other = "```"
    nxt = r.choice(NEXT) if fixed is None else fixed
    cont = []
    if nxt == "step":
        cont = ["    " + kw() + "after"]
    elif nxt == "scenario":
        cont = ["  " + title("scenario", "next"), "    " + kw() + "n"]
    elif nxt == "tagged_scenario":
        cont = ["  @t1 @t2", "", "  # c", "  " + title("scenario", "next")]
    elif nxt == "examples" and place == "outline":
        cont = ["    " + title("examples", "e"), "      | a |", "      | 1 |"]
    elif nxt == "tagged_examples" and place == "outline":
        cont = ["    @e", "    " + title("examples", "e"), "      | a |"]
    elif nxt == "rule":
        cont = ["  " + title("rule", "next rule"), "    " + title("scenario", "rs")]
    elif nxt == "comment_blank_step":
        cont = ["    # comment", "", "    " + kw() + "after"]
    elif nxt == "another_docstring_step":
        cont = ["    " + kw() + "second", "      " + other, "      " + title("feature", "inside second"), "      " + other]
        intents.append({"content": cont[2].strip(), "delimiter": other, "mediaType": None, "location": {"line": len(lines) + 2, "column": 7},
                        "opening_line": len(lines) + 2, "closing_line": len(lines) + 4, "n_content": 1})
    lines += cont
    nl = r.choice(["\n", "\n", "\r\n"])
    text = nl.join(lines) + (nl if r.random() < 0.85 else "")
    intent = dict(intents[0], place=place, next=nxt, all=intents)
    return text, intent


def find_docstrings(ast):
    return [n for k, n in observe.iter_nodes(ast) if k == "docString"]


def erase(o, first_line, shift):
    """AST with the first doc string's content erased and all lines after it shifted (for the continuation comparison)."""
    if isinstance(o, dict):
        out = {}
        for k, v in o.items():
            if k == "id":
                continue
            if k == "location" and isinstance(v, dict):
                v = dict(v)
                if v.get("line", 0) > first_line:
                    v["line"] = v["line"] - shift
                out[k] = v
            elif k == "docString" and v.get("location", {}).get("line") == first_line:
                out[k] = dict(erase(v, first_line, shift), content="")
            else:
                out[k] = erase(v, first_line, shift)
        return out
    if isinstance(o, list):
        return [erase(x, first_line, shift) for x in o]
    return o


def check_case(seed, i, M, env=None):
    r = rng(seed, ID, "doc", i)
    names = sorted(dialects.master())
    dialect = "en" if r.random() < 0.5 else r.choice(names)
    state = r.getstate()
    text, intent = build(r, dialect)
    M.case(h64(text))
    case = {"kind": "doc", "seed": seed, "index": i, "text": text}
    if env is not None and i % 3 == 0:
        # same document on objects that parsed other documents before (also ones ending inside a doc string)
        o = env.parse(text, M)
        case = {"kind": "shard", "spec": env.spec, "index": i, "text": text}
    else:
        o = observe.parse_observed(text)
    apply_parse_monitors(o, M, case, {"G3", "G4"})
    cover_transitions(o, M)
    M.hist("places", intent["place"])
    M.hist("next", intent["next"])
    M.hist("content_lines", min(intent["n_content"], 10))
    if o.status != "ok":
        M.violation("C13.rejected", {"what": "document with a well-formed doc string rejected", "errors": o.err_messages()[:3], "crash": o.tb}, case)
        return
    ds = find_docstrings(o.ast)
    M.count("docstrings_compared")
    if not ds:
        M.violation("C13.missing", {"what": "no doc string in the AST"}, case)
        return
    M.hist("doc_strings_per_document", len(intent["all"]))
    if len(ds) != len(intent["all"]):
        M.violation("C13.content", {"what": "number of doc strings in the AST differs from the number written", "got": len(ds), "want": len(intent["all"])}, case)
    for n_, (d, it) in enumerate(zip(ds, intent["all"])):
        want = {k: it[k] for k in ("content", "delimiter", "location")}
        if it["mediaType"]:
            want["mediaType"] = it["mediaType"]
        M.count("docstrings_compared")
        if d != want:
            diff = {k: (d.get(k), want.get(k)) for k in set(d) | set(want) if d.get(k) != want.get(k)}
            M.violation("C13.content", {"what": "doc string differs from what was written between the delimiters", "which": n_,
                                        "delimiters_in_document": [x["delimiter"] for x in intent["all"]], "differences": short(diff, 400)}, case)
            break
    # (3) opacity hook
    log = o.log
    calls = [x for x in log.opaque if x[0] == "call"]
    M.count("opacity_calls_observed", len(calls))
    for x in log.opaque:
        if x[0] == "state-changed":
            M.violation("C13.opacity", {"what": "doc string delimiter/indent state changed outside the separator test", "event": x}, case)
            break
        if x[0] == "call" and x[3] and x[1] not in ("match_DocStringSeparator", "match_Other", "match_EOF"):
            M.violation("C13.opacity", {"what": "a line inside a doc string was matched as Gherkin", "matcher": x[1], "line": x[2]}, case)
            break
    # lines between the delimiters must all be delivered as Other
    inside = [(l, k) for l, k in log.builds if l != "EOF" and any(it["opening_line"] < l < it["closing_line"] for it in intent["all"])]
    if any(k != "Other" for _, k in inside) or len(inside) != sum(it["n_content"] for it in intent["all"]):
        M.violation("C13.opacity", {"what": "content lines were not all delivered as free text", "delivered": inside[:6]}, case)
    # (2) continuation: same document with an empty doc string
    r.setstate(state)
    text0, intent0 = build(r, dialect, empty=True)
    o0 = observe.parse_observed(text0)
    M.count("continuations_compared")
    if o0.status != "ok":
        M.violation("C13.rejected", {"what": "the empty-doc-string variant is rejected", "errors": o0.err_messages()[:2]}, dict(case, text=text0))
        return
    a = erase(o.ast, intent["opening_line"], intent["n_content"])
    b = erase(o0.ast, intent0["opening_line"], 0)
    if a != b:
        from ..docmodel import diff
        M.violation("C13.continuation", {"what": "elements after the closing delimiter differ from the same document with an empty doc string",
                                         "differences": short(diff(b, a)[:3], 400)}, case)
    if i % 499 == 0:
        M.sample({"text": short(text, 400), "intent": {k: intent[k] for k in ("delimiter", "mediaType", "place", "next", "n_content")}})


def plan(tier, seed):
    q = tier == "quick"
    return shards("docs", 5000 if q else 200000, 300 if q else 5000, seed) + shards("interleaved", 60 if q else 3000, 20 if q else 300, seed) + \
        [{"family": "markdown", "seed": seed, "n": 1}]


def run_interleaved(spec, M):
    """Documents with doc strings parsed by several Parser objects at the same time (own threads, turns at token fetches, no
    matcher passed): the delimiter and indentation of one document's open doc string are nobody else's business."""
    from . import c15
    names = sorted(dialects.master())
    for i in range(spec["start"], spec["start"] + spec["n"]):
        r = rng(spec["seed"], ID, "interleaved", i)
        texts = [build(r, "en" if r.random() < 0.6 else r.choice(names))[0] for _ in range(r.choice([2, 2, 3]))]
        solo, runs = c15.interleaved(texts, r, n_schedules=2)
        M.case(h64(["interleaved", texts]))
        for res in runs:
            M.count("interleaved_parses", len(res))
            if res != solo:
                k = next(j for j, (a, b) in enumerate(zip(res, solo)) if a != b)
                M.violation("C13.interleaved", {"what": "a document with doc strings gives another result when other Parser objects parse other documents at the same time",
                                                "alone": short(solo[k], 240), "interleaved": short(res[k], 240)}, {"kind": "interleaved", "texts": texts})
                break


def run_markdown(M):
    """The Markdown matcher at line level (it cannot be driven through Parser.parse): while a doc string is open, a line that
    starts with ANOTHER delimiter is content, only the delimiter that opened it closes it."""
    from gherkin.token_matcher_markdown import GherkinInMarkdownTokenMatcher
    from gherkin.token import Token
    from gherkin.gherkin_line import GherkinLine
    delims = ['"""', "```", "````"]
    for d in ("en", "fr", "ja"):
        for opener in delims:
            for other in delims:
                for pad in ("", "  ", "      "):
                    m = GherkinInMarkdownTokenMatcher(d)
                    t0 = Token(GherkinLine("  " + opener + "\n", 1), {"line": 1})
                    M.count("markdown_docstring_probes")
                    if not m.match_DocStringSeparator(t0):
                        M.violation("C13.markdown", {"what": "Markdown matcher does not open a doc string at its delimiter", "delimiter": opener}, {"kind": "markdown"})
                        continue
                    t1 = Token(GherkinLine(pad + other + " x\n" if other != opener else pad + other + "\n", 2), {"line": 2})
                    got = bool(m.match_DocStringSeparator(t1))
                    want = other == opener or (other.startswith(opener) and other != opener and False)
                    # a longer run of the same character begins with the opener: it closes a doc string opened by the shorter one
                    if other != opener and other.startswith(opener):
                        continue
                    if got != want:
                        M.violation("C13.markdown", {"what": "Markdown matcher: a line starting with %r %s a doc string opened by %r" % (
                            other, "closes" if got else "does not close", opener), "dialect": d}, {"kind": "markdown"})


def run_shard(spec, M):
    if spec.get("family") == "interleaved":
        return run_interleaved(spec, M)
    if spec.get("family") == "markdown":
        return run_markdown(M)
    env = ReusedEnv(rng(spec["seed"], ID, "reuse", spec["shard"]))
    env.spec = spec
    for i in range(spec["start"], spec["start"] + spec["n"]):
        check_case(spec["seed"], i, M, env)


def replay(case, M):
    if case["kind"] == "markdown":
        return run_markdown(M)
    if case["kind"] == "interleaved":
        from . import c15
        import random as _random
        solo, runs = c15.interleaved(case["texts"], _random.Random(0), n_schedules=20)
        if any(res != solo for res in runs):
            M.violation("C13.interleaved", {"what": "a document with doc strings gives another result when other Parser objects parse other documents at the same time"}, case)
        return
    if case["kind"] == "shard":
        run_shard(case["spec"], M)
    else:
        check_case(case["seed"], case["index"], M)


def finish(M, tier):
    return {"transitions_covered": len(M.sets.get("transitions", ()))}
