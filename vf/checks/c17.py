"""C17 — stream output is well-formed Cucumber Messages in the documented order."""
from __future__ import annotations

import json
import os
import subprocess
import sys

from .. import observe, messages, corpus, noisy, docmodel, workloads, probe
from ..common import h64, short, PY_ROOT
from .base import rng, shards
from .c11 import shift, all_ids

from gherkin.stream.gherkin_events import GherkinEvents
from gherkin.stream.source_events import source_event, SourceEvents
from gherkin.parser import Parser
from gherkin.ast_builder import AstBuilder
from gherkin.pickles.compiler import Compiler
from gherkin.stream.id_generator import IdGenerator
from gherkin.errors import ParserError, CompositeParserException

ID = "C17"
LEVEL = "exploration"
RULE = ("Sources from the corpus (W1), rendered documents (W2), fault-injected (W3) and noisy (W4) documents are sent through the "
        "real GherkinEvents.enum with all 8 print-option triples.  Checked per (source, options): the envelope sequence is [source?] "
        "[gherkinDocument?] [pickle*] for an accepted source and exactly one parseError per error for a rejected one (contents "
        "compared with a direct Parser.parse + Compiler.compile of the same text with a fresh generator); the source envelope carries "
        "uri, the text unchanged (CRLF kept) and the Gherkin media type; every envelope passes the message-shape validator R7 and "
        "json.dumps; the corpus envelopes equal the golden .source/.ast/.pickles/.errors.ndjson; sequences of 2..6 sources through one "
        "GherkinEvents equal the solo envelopes with ids shifted by the ids drawn before, in the order given; source_event(path) "
        "returns the file's text byte for byte; scripts.generate_events prints the same envelopes as JSON lines.  File-access audit: "
        "enum opens no file.  Distinct = (source hash, options)."
        " Also: every source also through a stream whose parser stops at the first error; envelopes yielded for earlier sources of a stream are re-checked for later modification.")
ASSUMPTIONS = ["R7 encodes the Cucumber Messages shapes this library emits and accepts all 275 golden envelopes (setup_cmd)",
               "the content oracle for gherkinDocument/pickle envelopes is a direct parse+compile with fresh objects: C17 is about the stream layer; parser and compiler content are C03-C11"]
DECIDING = ["enum_calls", "envelopes_validated", "corpus_envelopes_compared", "streams_checked", "cli_runs", "isolated_envelopes_compared"]
OPTS = [(a, b, c) for a in (True, False) for b in (True, False) for c in (True, False)]
MEDIA = "text/x.cucumber.gherkin+plain"


def plan(tier, seed):
    q = tier == "quick"
    specs = shards("sources", 2000 if q else 100000, 200 if q else 4000, seed)
    specs += shards("streams", 400 if q else 20000, 50 if q else 1000, seed)
    specs += [{"family": "corpus", "seed": seed, "n": 1}, {"family": "files", "seed": seed, "n": 1, "count": 12 if q else 200},
              {"family": "isolation", "seed": seed, "n": 1, "sample": 12 if q else 150},
              {"family": "f1", "seed": seed, "n": 1}]
    return specs


def make_source(r, i):
    c = i % 10
    if c < 4:
        return docmodel.render(r, size=r.choice(["small", "medium"]), rare=(i % 7 == 0)).text
    if c < 6:
        return workloads.faulted(r, docmodel.render(r, size="small"))[0]
    if c < 8:
        return noisy.text_of(noisy.gen_any(r, 20), nl=r.choice(["\n", "\r\n"]))
    if c == 8:
        return workloads.structured_hostile(r)
    return r.choice(["", "# only a comment\n", "Feature: f\n", "Feature: f\n  Scenario Outline: o\n    And <a>\n    Examples:\n      | a |\n      | 1 |\n"])


def direct(text, uri, start=0):
    """What a direct use of parser and compiler yields for this source (fresh objects)."""
    idg = IdGenerator()
    for _ in range(start):
        idg.get_next_id()
    p = Parser(AstBuilder(idg))
    try:
        doc = p.parse(text)
    except CompositeParserException as e:
        return "rejected", [{"parseError": {"source": {"uri": uri, "location": x.location}, "message": str(x)}} for x in e.errors]
    except ParserError as e:
        return "rejected", [{"parseError": {"source": {"uri": uri, "location": e.location}, "message": str(e)}}]
    doc = {**doc, "uri": uri}
    pickles = Compiler(idg).compile(doc)
    return "accepted", (doc, pickles)


def check_source(text, uri, M, case, all_opts=True, idx=0):
    try:
        st0, ref = direct(text, uri)
    except Exception:
        st0, ref = "crash", None          # decided below through enum (typed-outcome / F1 classification)
    src = {"source": {"uri": uri, "data": text, "mediaType": MEDIA}}
    for opts in (OPTS if all_opts else [OPTS[idx % 8]]):
        M.case(h64([text, opts]))
        M.count("enum_calls")
        st, envs, opened, _ = observe.enum_observed(text, uri=uri, options=opts)
        c = dict(case, options=list(opts))
        if st != "ok":
            mech = observe.f1_from_opened(text, opened)
            M.violation("C17.crash", {"what": "exception escaped GherkinEvents.enum", **envs}, c, mechanism=mech)
            continue
        if text in opened:
            M.violation("G11", {"what": "the source text was opened as a file during GherkinEvents.enum"}, c, mechanism=observe.F1)
            continue
        if opened:
            M.violation("G11", {"what": "GherkinEvents.enum opened files", "paths": opened[:3]}, c)
        if st0 == "crash":
            M.violation("C17.crash", {"what": "direct parse/compile of the source raised although enum did not"}, c)
            continue
        if st0 == "accepted":
            doc, pickles = ref
            want = ([src] if opts[0] else []) + ([{"gherkinDocument": doc}] if opts[1] else []) + ([{"pickle": p} for p in pickles] if opts[2] else [])
        else:
            want = ref
        M.hist("outcome", st0)
        if envs != want:
            kinds = [next(iter(e)) if isinstance(e, dict) and e else "?" for e in envs]
            M.violation("C17.sequence", {"what": "envelope sequence differs from [source?][gherkinDocument?][pickle*] / one parseError per error",
                                         "options": dict(zip(("print_source", "print_ast", "print_pickles"), opts)), "status": st0,
                                         "got_kinds": kinds[:12], "want_kinds": [next(iter(e)) for e in want][:12]}, c)
        for e in envs:
            M.count("envelopes_validated")
            M.hist("envelope_kinds", next(iter(e)) if isinstance(e, dict) and e else "?")
            pr = messages.validate_envelope(e)
            if pr:
                M.violation("G7", {"what": "envelope does not have the Cucumber Messages shape", "problems": pr[:3]}, c)
                break
            if "source" in e and (e["source"].get("data") != text or e["source"].get("uri") != uri or e["source"].get("mediaType") != MEDIA):
                M.violation("C17.source", {"what": "source envelope is not (uri, text unchanged, Gherkin media type)"}, c)


def check_stop_mode(text, uri, M, case):
    """A stream whose parser stops at the first error yields exactly one parseError (the first) for a rejected source
    and the usual envelopes for an accepted one."""
    st0, ref = direct(text, uri)
    M.count("enum_calls")
    st, envs, opened, _ = observe.enum_observed(text, uri=uri, options=(False, True, True), stop=True)
    if st != "ok":
        mech = observe.f1_from_opened(text, opened)
        M.violation("C17.crash", {"what": "exception escaped GherkinEvents.enum (stop-at-first-error parser)", **envs}, case, mechanism=mech)
        return
    if st0 == "accepted":
        doc, pickles = ref
        want = [{"gherkinDocument": doc}] + [{"pickle": p} for p in pickles]
    else:
        want = ref[:1]
    if envs != want:
        M.violation("C17.sequence", {"what": "stop-at-first-error stream: envelopes differ from the documented sequence / the first error",
                                     "status": st0, "got": short(envs, 300), "want": short(want, 300)}, case)
    for e in envs:
        M.count("envelopes_validated")
        pr = messages.validate_envelope(e)
        if pr:
            M.violation("G7", {"what": "envelope does not have the Cucumber Messages shape", "problems": pr[:3]}, case)
            break


def check_stream(sources, opts, M, case):
    M.case(h64([sources, opts]))
    M.count("streams_checked")
    ge = GherkinEvents(GherkinEvents.Options(*opts))
    drawn = 0
    import copy
    held = []
    with probe.observing(ids=True) as obs:
        for n, text in enumerate(sources):
            for envs_, snap in held:
                if envs_ != snap:
                    M.violation("C17.stream", {"what": "envelopes yielded for an earlier source were modified while a later source was processed",
                                               "position": n}, case)
                    return
            uri = "features/s%d.feature" % sources.index(text)      # equal texts arrive under the same uri
            before = sum(1 for d in obs.ids if d[2] == id(ge.id_generator))
            st, envs, opened, _ = observe.enum_observed(text, uri=uri, events=ge)
            if st != "ok":
                M.violation("C17.crash", {"what": "exception escaped GherkinEvents.enum in a stream", **envs}, case)
                return
            st0, ref = direct(text, uri, start=before)
            src = {"source": {"uri": uri, "data": text, "mediaType": MEDIA}}
            if st0 == "accepted":
                doc, pickles = ref
                want = ([src] if opts[0] else []) + ([{"gherkinDocument": doc}] if opts[1] else []) + ([{"pickle": p} for p in pickles] if opts[2] else [])
            else:
                want = ref
            held.append((envs, copy.deepcopy(envs)))
            if envs != want:
                M.violation("C17.stream", {"what": "envelopes of a source inside a stream differ from its solo envelopes shifted by the ids drawn before it",
                                           "position": n, "ids_drawn_before": before, "got": short(envs, 300), "want": short(want, 300)}, case)
                return


def _strip_ids(o):
    if isinstance(o, dict):
        return {k: _strip_ids(v) for k, v in o.items() if k not in ("id", "astNodeId", "astNodeIds")}
    if isinstance(o, list):
        return [_strip_ids(x) for x in o]
    return o


def check_round_robin(sources, opts, M, case):
    """Several enum() generators of ONE GherkinEvents object, advanced in turns by the consumer (zip-like): every generator
    yields the envelopes of its own source — the same as alone, ids aside — and no id is handed out twice."""
    ge = GherkinEvents(GherkinEvents.Options(*opts))
    uris = ["features/r%d.feature" % k for k in range(len(sources))]
    gens = [ge.enum({"source": {"uri": u, "data": t, "mediaType": MEDIA}}) for u, t in zip(uris, sources)]
    got = [[] for _ in sources]
    live = list(range(len(sources)))
    M.count("round_robin_streams")
    try:
        while live:
            for k in list(live):
                try:
                    got[k].append(next(gens[k]))
                except StopIteration:
                    live.remove(k)
    except Exception as e:
        if any(os.path.exists(t) for t in sources if len(t) < 300):
            return
        M.violation("C17.crash", {"what": "exception while several enum() generators of one GherkinEvents were advanced in turns", "error": repr(e)[:200]}, case)
        return
    seen = []
    for k, (u, t) in enumerate(zip(uris, sources)):
        st, solo, opened, _ = observe.enum_observed(t, uri=u, options=opts)
        if st != "ok":
            return
        M.count("round_robin_envelopes_compared", len(solo))
        if _strip_ids(got[k]) != _strip_ids(solo):
            M.violation("C17.stream", {"what": "an enum() generator advanced in turns with other generators of the same GherkinEvents yields other envelopes than alone (ids aside)",
                                       "position": k, "got": short(_strip_ids(got[k]), 300), "want": short(_strip_ids(solo), 300)}, case)
            return
        seen += all_ids([e for e in got[k] if "source" not in e])
    if len(set(seen)) != len(seen):
        M.violation("C17.stream", {"what": "an id was handed out twice among generators of one GherkinEvents advanced in turns"}, case)


def run_corpus(M):
    for g in corpus.good():
        uri = corpus.rel(g["path"])
        case = {"kind": "corpus", "path": g["path"]}
        for key, opts in (("source", (True, False, False)), ("ast", (False, True, False)), ("pickles", (False, False, True))):
            if g[key] is None:
                continue
            ev = source_event(g["path"])
            ev["source"]["uri"] = uri
            ge = GherkinEvents(GherkinEvents.Options(*opts))
            try:
                got = list(ge.enum(ev))
            except Exception as e:
                M.violation("C17.corpus", {"what": "enum raised on a good corpus file", "path": g["path"], "error": repr(e)[:200]}, case)
                continue
            M.count("corpus_envelopes_compared", len(g[key]))
            if got != g[key]:
                M.violation("C17.corpus", {"what": "envelopes differ from the golden .%s.ndjson" % key, "path": g["path"], "got": short(got, 300)}, case)
        M.case(h64(g["text"]))
        check_source(g["text"], uri, M, {"kind": "text", "text": g["text"], "uri": uri})
    for b in corpus.bad():
        uri = corpus.rel(b["path"])
        ev = source_event(b["path"])
        ev["source"]["uri"] = uri
        for opts in OPTS:
            got = list(GherkinEvents(GherkinEvents.Options(*opts)).enum(ev))
            M.count("corpus_envelopes_compared", len(b["errors"]))
            if got != b["errors"]:
                M.violation("C17.corpus", {"what": "envelopes of a rejected corpus file differ from the golden .errors.ndjson", "path": b["path"],
                                           "options": opts, "got": short(got, 300)}, {"kind": "corpus", "path": b["path"]})


def run_files(spec, M):
    """source_event(path) returns the file's text unchanged; the CLI prints the same envelopes."""
    r = rng(spec["seed"], ID, "files")
    paths = []
    texts = []
    # files whose bytes some I/O layer might 'normalise': byte-order marks, lone CR, mixed endings, Ctrl-Z, NUL, U+2028,
    # no final line break, empty file
    HOSTILE_FILES = ["\ufeffFeature: bom\n  Scenario: s\n    Given x\n", "Feature: f\ufeff\n", "\ufffeFeature: x\n", "Feature: cr\r  Scenario: s\r    Given x\r",
                     "Feature: mixed\r\n  Scenario: s\n    Given x\r\n\r    Then y\n\r", "Feature: z\x1a\n  Scenario: s\n\x1a", "Feature: n\x00ul\n",
                     "Feature: u\u2028  Scenario: s\u2029    Given x\x85", "Feature: no final newline", "", "\n", "\r\n", "\r", "\ufeff"]
    for i in range(spec["count"] + len(HOSTILE_FILES)):
        if i >= spec["count"]:
            text = HOSTILE_FILES[i - spec["count"]]
            M.count("hostile_files_checked")
        else:
            text = make_source(r, i)
            if i % 2:
                text = text.replace("\r\n", "\n").replace("\n", "\r\n")
        try:
            data = text.encode("utf8")
        except UnicodeEncodeError:
            continue
        p = os.path.abspath("f%03d.feature" % i)
        with open(p, "wb") as f:
            f.write(data)
        ev = source_event(p)
        M.case(h64(["file", text]))
        M.count("source_events_checked")
        if ev != {"source": {"uri": p, "data": text, "mediaType": MEDIA}}:
            M.violation("C17.source_event", {"what": "source_event(path) does not return (uri, the file's text unchanged, media type)",
                                             "crlf": "\r\n" in text, "got_len": len(ev["source"]["data"]), "want_len": len(text)},
                        {"kind": "file", "text": text})
        paths.append(p)
        texts.append(text)
    # files change between reads: same path, other text of the same byte length, modification time put back; also a
    # shorter and a longer text.  source_event must return what the file holds now.
    for k, p in enumerate(paths[:8]):
        old_text = texts[k]
        st = os.stat(p)
        variants = [("same length", "".join(chr(ord(c) ^ 1) if c.isascii() and c.isalnum() else c for c in old_text)),
                    ("longer", old_text + "# appended\n"), ("shorter", old_text[:len(old_text) // 2])]
        for what, new_text in variants:
            try:
                data = new_text.encode("utf8")
            except UnicodeEncodeError:
                continue
            if new_text == old_text:
                continue
            with open(p, "wb") as fh:
                fh.write(data)
            os.utime(p, ns=(st.st_atime_ns, st.st_mtime_ns))
            M.count("rewritten_files_checked")
            try:
                ev = source_event(p)
            except Exception as e:
                ev = {"raised": repr(e)[:200]}
            if ev != {"source": {"uri": p, "data": new_text, "mediaType": MEDIA}}:
                M.violation("C17.source_event", {"what": "after the file was rewritten (%s text, same modification time) source_event(path) does not return the file's present text" % what,
                                                 "returns_old_text": ev.get("source", {}).get("data") == old_text}, {"kind": "file", "text": new_text})
            old_text = new_text
        with open(p, "wb") as fh:
            fh.write(texts[k].encode("utf8"))
    M.count("source_event_sequences_checked")
    try:
        evs = list(SourceEvents(paths).enum())
    except Exception as e:
        evs = None
        M.violation("C17.source_event", {"what": "SourceEvents(paths).enum() raised instead of yielding one source envelope per path",
                                         "error": repr(e)[:200]}, {"kind": "file", "text": ""})
    if evs is not None and evs != [{"source": {"uri": p, "data": t, "mediaType": MEDIA}} for p, t in zip(paths, texts)]:
        M.violation("C17.source_event", {"what": "SourceEvents does not yield the source envelopes of the paths, in the order given",
                                         "got_uris": [short(e.get("source", {}).get("uri"), 60) for e in evs][:8]}, {"kind": "file", "text": ""})
    # CLI on the temp files, three option combinations
    base_env = dict(os.environ, PYTHONPATH=PY_ROOT, PYTHONDONTWRITEBYTECODE="1")
    for k in ("PYTHONIOENCODING", "PYTHONUTF8", "LC_ALL", "LANG", "PYTHONCOERCECLOCALE"):
        base_env.pop(k, None)
    # the script's output is JSON with ASCII escapes: it must come out the same whatever encoding stdout has
    stdouts = [("utf-8", {"PYTHONIOENCODING": "utf-8"}), ("ascii", {"PYTHONIOENCODING": "ascii"}), ("latin-1", {"PYTHONIOENCODING": "latin-1"}),
               ("cp1252", {"PYTHONIOENCODING": "cp1252"}), ("C locale", {"LC_ALL": "C", "PYTHONUTF8": "0", "PYTHONCOERCECLOCALE": "0"})]
    runs = [([], (True, True, True), so) for so in stdouts] + [(fl, op, stdouts[0]) for fl, op in (
        (["--no-source"], (False, True, True)), (["--no-ast", "--no-pickles"], (True, False, False)), (["--no-source", "--no-ast"], (False, False, True)))]
    for flags, opts, (so_name, so_env) in runs:
        env = dict(base_env, **so_env)
        sel = paths[:4] + paths[-len(HOSTILE_FILES):]
        pr = subprocess.run([sys.executable, "-B", "-m", "scripts.generate_events"] + flags + sel, cwd=PY_ROOT, env=env, capture_output=True, timeout=300)
        M.count("cli_runs")
        M.hist("cli_stdout_encoding", so_name)
        case = {"kind": "cli", "flags": flags, "stdout": so_name}
        if pr.returncode != 0:
            M.violation("C17.cli", {"what": "scripts.generate_events failed (stdout encoding: %s)" % so_name, "stderr": pr.stderr.decode("utf8", "replace")[-300:]}, case)
            continue
        try:
            got = [json.loads(l) for l in pr.stdout.decode("ascii").split("\n") if l.strip()]
        except Exception as e:
            M.violation("C17.cli", {"what": "CLI output is not ASCII JSON lines (stdout encoding: %s)" % so_name, "error": repr(e)[:100]}, case)
            continue
        ge = GherkinEvents(GherkinEvents.Options(*opts))
        want = []
        for p in sel:
            want += list(ge.enum(source_event(p)))
        want = json.loads(json.dumps(want))
        M.count("cli_envelopes_compared", len(want))
        if got != want:
            M.violation("C17.cli", {"what": "CLI prints other envelopes than GherkinEvents.enum yields", "flags": flags, "stdout": so_name,
                                    "got_n": len(got), "want_n": len(want)}, case)
    for p in paths:
        os.remove(p)


def run_isolation(spec, M):
    """'Each source's envelopes depend only on that source and the running id counter' — also not on anything the PROCESS
    has seen before: [A, B] through one stream in a fresh interpreter against [B] alone in another fresh interpreter, for
    the ordered pairs of dialects that list one word in different roles (plus sampled pairs), A and B using every keyword."""
    from .c15 import dialect_doc, colliding_pairs
    from .. import dialects as dl
    r = rng(spec["seed"], ID, "isolation")
    names = sorted(dl.master())
    pairs = colliding_pairs() + [tuple(r.sample(names, 2)) for _ in range(spec["sample"])]
    solo = {}
    docs = {}
    for d in sorted({b for _, b in pairs}):
        docs[d] = dialect_doc(d)
    out = observe.isolated_stream([("b.feature", docs[d]) for d in sorted(docs)], fresh_per_source=True)
    if out is None:
        M.inconc("isolated worker failed (solo documents)")
        return
    solo = dict(zip(sorted(docs), out))
    # all pairs in as few processes as possible would let earlier pairs influence later ones: one process per pair
    for a, b in pairs:
        M.case(h64(["isolation", a, b]))
        M.count("isolated_streams")
        res = observe.isolated_stream([("a.feature", dialect_doc(a)), ("b.feature", docs[b])])
        if res is None:
            M.inconc("isolated worker failed for %s,%s" % (a, b))
            continue
        ids_a = [int(x) for x in all_ids(res[0]) if str(x).isdigit()]
        off = 1 + max(ids_a) if ids_a else 0
        want = shift(solo[b], off)
        M.count("isolated_envelopes_compared", len(want))
        if res[1] != want:
            M.violation("C17.stream", {"what": "envelopes of a source that follows a source in dialect %s differ from the envelopes the same source gets in a process that has seen nothing else (shifted by the ids drawn before it)" % a,
                                       "dialects": [a, b], "got": short(res[1], 300), "want": short(want, 300)}, {"kind": "isolation", "a": a, "b": b})


def run_f1(M):
    os.mkdir("features")
    for text in (".", "features", ".."):
        check_source(text, "u.feature", M, {"kind": "text", "text": text, "uri": "u.feature", "needs_dir": True}, all_opts=False)
    os.rmdir("features")


def run_shard(spec, M):
    fam, seed = spec["family"], spec["seed"]
    if fam == "sources":
        for i in range(spec["start"], spec["start"] + spec["n"]):
            r = rng(seed, ID, "src", i)
            text = make_source(r, i)
            check_source(text, "features/a b/%d.feature" % i, M, {"kind": "text", "text": text, "uri": "features/a b/%d.feature" % i})
            if "\x00" not in text:
                check_stop_mode(text, "features/a b/%d.feature" % i, M, {"kind": "text", "text": text, "uri": "features/a b/%d.feature" % i})
            if i % 499 == 0:
                M.sample({"text": short(text, 300)})
    elif fam == "streams":
        for i in range(spec["start"], spec["start"] + spec["n"]):
            r = rng(seed, ID, "stream", i)
            sources = [make_source(r, r.randrange(10)) for _ in range(r.randint(2, 6))]
            opts = OPTS[i % 8]
            if r.random() < 0.4:
                sources.insert(r.randint(1, len(sources)), sources[r.randrange(len(sources))])        # the same source once more
                M.count("streams_with_a_repeated_source")
            check_stream(sources, opts, M, {"kind": "stream", "sources": sources, "options": list(opts)})
            if i % 3 == 0:
                check_round_robin(sources[:3], opts, M, {"kind": "round_robin", "sources": sources[:3], "options": list(opts)})
    elif fam == "corpus":
        run_corpus(M)
    elif fam == "files":
        run_files(spec, M)
    elif fam == "isolation":
        run_isolation(spec, M)
    elif fam == "f1":
        run_f1(M)


def replay(case, M):
    k = case["kind"]
    if k == "text":
        if case.get("needs_dir"):
            run_f1(M)
        else:
            check_source(case["text"], case.get("uri", "u"), M, case)
            check_stop_mode(case["text"], case.get("uri", "u"), M, case)
    elif k == "stream":
        check_stream(case["sources"], tuple(case["options"]), M, case)
    elif k == "corpus":
        run_corpus(M)
    elif k == "round_robin":
        check_round_robin(case["sources"], tuple(case["options"]), M, case)
    elif k == "isolation":
        run_isolation({"seed": 0, "sample": 0}, M)
    else:
        run_files({"seed": 0, "count": 12}, M)
