"""Template used by C06/C07/C08 (same run and oracle, different deciding field group)."""
from __future__ import annotations

from ..common import h64, short
from .base import rng, shards
from . import picklecheck as pc


def make(prop, rule_text, hostile_names):
    def plan(tier, seed):
        q = tier == "quick"
        specs = shards("direct", 30000 if q else 2000000, 2500 if q else 50000, seed)
        specs += shards("parsed", 3000 if q else 100000, 250 if q else 4000, seed)
        specs += shards("reused_compiler", 8000 if q else 400000, 2000 if q else 40000, seed)
        specs += [{"family": "thresholds", "seed": seed, "n": 1, "part": k, "parts": 8, "tier": tier} for k in range(8)]
        specs += [{"family": "threads", "seed": seed + k, "n": 1, "rounds": 25 if q else 300} for k in range(1 if q else 4)]
        return specs

    def one_direct(seed, i, M, compiler=None, spec=None):
        r = rng(seed, prop, "direct" if compiler is None else "reused", i)
        doc = pc.AstGen(r, hostile_names=hostile_names).doc()
        k = pc.assign_ids(doc)
        case = {"kind": "ast", "family": "direct", "index": i, "seed": seed, "doc": doc, "next_id": k}
        if compiler is not None:
            M.case(h64(doc))
            pc.compare(doc, "features/x.feature", k, prop, M, {"kind": "shard", "spec": spec, "index": i}, compiler=compiler)
            return
        M.case(h64(doc))
        M.hist("shapes", pc.shape_of(doc))
        M.cover("shapes", pc.shape_of(doc))
        pc.compare(doc, "features/x.feature", k, prop, M, case)
        if i % 4999 == 0:
            M.sample({"shape": pc.shape_of(doc), "doc": short(doc, 500)})

    def one_parsed(seed, i, M):
        res = pc.parsed_doc(seed, prop + "parsed", i, M, ascii_only=not hostile_names)
        if res is None:
            return
        ast, k, text = res
        case = {"kind": "parsed", "family": "parsed", "index": i, "seed": seed, "text": text}
        M.case(h64(text))
        M.cover("shapes", pc.shape_of(ast))
        pc.compare(ast, "features/x.feature", k, prop, M, case)
        if i % 5 == 0:
            pc.stream_pickles_agree(text, prop, M, case)
        if i % 250 == 0:
            pc.childless_without_uri(prop, M)

    def run_shard(spec, M):
        if spec["family"] == "thresholds":
            from .. import thresholds, observe
            for dim, n in thresholds.cases(spec["tier"], spec["part"], spec["parts"]):
                R = thresholds.build(dim, n)
                o = observe.parse_observed(R.text)
                M.case(h64(R.text))
                if o.status != "ok":
                    M.count("advisory.generated_document_rejected")
                    continue
                M.count("documents_parsed")
                pc.compare(o.ast, "features/x.feature", int(o.idgen.get_next_id()), prop, M, {"kind": "threshold", "dim": dim, "n": n})
            return
        if spec["family"] == "threads":
            pc.threaded_compile(prop, M, spec["seed"], rounds=spec["rounds"])
            pc.reentrant_compile(prop, M, spec["seed"], n=40 if spec["rounds"] < 100 else 400)
            return
        if spec["family"] == "reused_compiler":
            from gherkin.pickles.compiler import Compiler
            comp = Compiler()          # one Compiler (and its id generator) for every document of the shard
            for i in range(spec["start"], spec["start"] + spec["n"]):
                one_direct(spec["seed"], i, M, compiler=comp, spec=spec)
            return
        for i in range(spec["start"], spec["start"] + spec["n"]):
            (one_direct if spec["family"] == "direct" else one_parsed)(spec["seed"], i, M)

    def replay(case, M):
        if case["kind"] == "threshold":
            run_shard({"family": "thresholds", "tier": "thorough", "part": 0, "parts": 1, "seed": 0}, M)
        elif case["kind"] == "shard":
            run_shard(case["spec"], M)
        elif case["kind"] == "reentrant":
            pc.reentrant_compile(prop, M, case["seed"], n=400)
        elif case["kind"] == "threads":
            pc.threaded_compile(prop, M, case["seed"], rounds=300)
        elif case["kind"] == "childless":
            pc.childless_without_uri(prop, M)
        elif case["kind"] == "ast":
            pc.compare(case["doc"], "features/x.feature", case["next_id"], prop, M, case)
        else:
            one_parsed(case["seed"], case["index"], M)

    def finish(M, tier):
        return {"distinct_shapes": len(M.sets.get("shapes", ()))}

    return plan, run_shard, replay, finish
