"""C03 — the AST carries every element of the document once, in order, with exact text."""
from __future__ import annotations

import json

from .. import observe, corpus, dialects
from ..common import h64, short
from .base import rng, shards
from . import doccheck

ID = "C03"
LEVEL = "exploration"
RULE = ("R3 documents (random dialect of the 80, random element combination, Unicode text, decoy description lines, "
        "random indentation/padding/CRLF) are rendered from a document model that records the intended AST; the real "
        "parser's AST (ids and locations removed) must equal it, carry nothing that is not in the source (G9) and its "
        "builder events must be a derivation (G4).  The 41 corpus documents are compared with their golden "
        ".ast.ndjson.  Distinct = hash of the source text; non-trivial = the document has at least one line."
        " Also: families on reused Parser/TokenMatcher objects with perturbing predecessors (returned documents re-checked for later modification), boundary documents (special values, 12 tags on a line, indentation of 98..999 blanks, ids crossing 1000), threshold documents (one dimension of size n = 9..1025), every fourth document parsed from a TokenScanner object, every fifth read by a matcher whose default dialect is the document's dialect.")
ASSUMPTIONS = [
    "the renderer's soundness rules (DESIGN.md R3): names/texts/cells never start or end with white space, description lines are checked against the kinds the grammar expects there, every emitted line is classified on its final rendered form",
    "each generated document is first re-read by the grammar automaton R1 on its intended line kinds; a disagreement is a generator bug and makes the run inconclusive, never a violation",
]
DECIDING = ["C03.ast_comparisons", "G9.evaluated", "G4.evaluated", "corpus_ast_compared"]


def plan(tier, seed):
    q = tier == "quick"
    specs = shards("docs", 4000 if q else 250000, 250 if q else 4000, seed)
    specs += shards("per_dialect", 80 * (3 if q else 60), 80, seed)
    specs += shards("reused", 2000 if q else 100000, 250 if q else 4000, seed)
    specs += shards("boundaries", 480 if q else 24000, 30 if q else 600, seed)
    specs += [{"family": "thresholds", "seed": seed, "n": 1, "part": k, "parts": 16, "tier": tier} for k in range(16)]
    specs += shards("corpus", 1, 1, seed)
    return specs


def run_shard(spec, M):
    fam, seed = spec["family"], spec["seed"]
    if fam in ("docs", "per_dialect", "reused", "boundaries"):
        names = sorted(dialects.master())
        reused = doccheck.Reused(rng(seed, ID, "reused", spec["shard"])) if fam == "reused" else None
        if reused is not None:
            reused.spec = spec
        for i in range(spec["start"], spec["start"] + spec["n"]):
            kw = {"dialect": names[i % 80], "size": "small"} if fam == "per_dialect" else {}
            if fam == "boundaries":
                # counts crossing 10/100/1000, columns >= 100, special values ("<", "@", keywords as names, 300-character names, ...)
                kw = {"size": "huge" if i % 30 == 0 else ("small" if i % 2 else "medium"), "special": 0.35, "deep": True, "rare": False}
            if fam in ("docs", "reused"):
                kw = dict(kw, allow_default=True)
            R = doccheck.make_doc(seed, fam, i, **kw)
            case = {"kind": "doc", "family": fam, "index": i, "seed": seed, "text": R.text, "kw": kw}
            doccheck.check_doc(R, M, case, "C03", reused=reused)
            if i % 499 == 0:
                M.sample({"dialect": R.dialect, "text": short(R.text, 400)})
    elif fam == "thresholds":
        from .. import thresholds
        for dim, n in thresholds.cases(spec["tier"], spec["part"], spec["parts"]):
            R = thresholds.build(dim, n)
            M.hist("threshold_dims", dim)
            doccheck.check_doc(R, M, {"kind": "threshold", "dim": dim, "n": n}, "C03")
    elif fam == "corpus":
        for g in corpus.good():
            if not g["ast"]:
                continue
            M.case(h64(g["text"]))
            st, envs, _, _ = observe.enum_observed(g["text"], uri=corpus.rel(g["path"]), options=(False, True, False))
            M.count("corpus_ast_compared")
            got = envs if st == "ok" else None
            if got != g["ast"]:
                M.violation("C03.corpus", {"what": "AST differs from the golden .ast.ndjson", "path": g["path"],
                                           "got": short(got, 300)}, {"kind": "corpus", "path": g["path"]})


def replay(case, M):
    if case.get("kind") == "threshold":
        from .. import thresholds
        doccheck.check_doc(thresholds.build(case["dim"], case["n"]), M, case, "C03")
        return
    if case.get("kind") == "shard":
        run_shard(case["spec"], M)
        return
    if case["kind"] == "corpus":
        run_shard({"family": "corpus", "seed": 0}, M)
        return
    R = doccheck.make_doc(case["seed"], case["family"], case["index"], **case.get("kw", {}))
    if R.text != case["text"]:
        M.inconc("replay: the generator no longer reproduces the recorded text")
    doccheck.check_doc(R, M, case, "C03")


def finish(M, tier):
    return {"transitions_covered": len(M.sets.get("transitions", ())), "transitions_total": 334,
            "dialects_covered": len(M.hists.get("dialects", {}))}
