"""C02 — accepted language and rule nesting are exactly those of gherkin.berp."""
from __future__ import annotations

import itertools
import re
from collections import deque

from .. import observe, grammar as grammar_mod, siblings, noisy, corpus, probe, thresholds
from ..common import h64, short
from .base import rng, shards, apply_parse_monitors, cover_transitions, ReusedEnv
from . import doccheck

from gherkin.parser import Parser, ParserContext
from gherkin.token import Token
from gherkin.gherkin_line import GherkinLine
from gherkin.errors import ParserError, CompositeParserException, ParserException

ID = "C02"
LEVEL = "exploration"
TECHNIQUE = ("runtime monitoring: the transition table is observed by driving the real Parser.match_token with a stub matcher "
             "and a recording builder, then compared with sibling-derived and grammar-derived reference automata; online "
             "derivation monitor on builder events of full parses")
KINDS = grammar_mod.KINDS
LINE_KINDS = [k for k in KINDS if k != "EOF"]
RULE = ("(1) observed table: for every state 0..42 (34 = end excluded) x 14 token kinds x 4 look-ahead outcomes the real "
        "Parser.match_token is driven with a stub matcher/scanner and a recording builder (look-ahead helpers run for real): "
        "productions, successor, order of matcher tests, expected list — complete for that finite space; (2) the observed table "
        "must equal the consensus of the ruby/go/java/c/javascript tables exactly and be bisimilar to the automaton derived from "
        "gherkin.berp from the start state (decides acceptance/events over token sequences of any length, under the assumption "
        "that a step depends only on state, kind and look-ahead outcome); (3) that assumption is tested through the real "
        "Parser.parse: all token-kind sequences up to length L with stub scanner+matcher (events, acceptance, error lines, "
        "expected sets vs the automaton, error recovery and 11-cap included) and all sequences of real lines up to length L' "
        "with the real matcher vs the table simulator; (4) derivation monitor on corpus and generated documents, acceptance = "
        "sentence-hood of the intended line kinds; (5) the same on Parser/TokenMatcher objects used before (perturbing predecessors), "
        "on documents with one dimension of size 9..1025, and on look-ahead windows of 15..257 tokens.  Distinct = "
        "the probed cell / the sequence.")
ASSUMPTIONS = [
    "sibling parsers are data for the oracle; if they disagree among themselves the affected states make the run inconclusive",
    "the grammar automaton R1 is built from gherkin.berp only (never from parser.py)",
    "kind-level sequences: a line of kind K also matches #Other (every non-EOF line does), so it is free text where K is not expected",
]
DECIDING = ["cells_probed", "bisimulation_checks", "kind_sequences", "text_sequences", "G4.evaluated", "acceptance_compared",
            "parses_on_reused_objects", "threshold_documents", "long_windows_probed", "interleaved_parses"]


# ------------------------------------------------------------------ stubs

class StubMatcher:
    def __init__(self):
        self.calls = []

    def reset(self):
        pass

    def _m(self, kind, token):
        self.calls.append(kind)
        if kind in token.kinds:
            token.matched_type = kind
            return True
        return False


for _k in KINDS:
    setattr(StubMatcher, "match_" + _k, (lambda k: lambda self, token: self._m(k, token))(_k))


class RecBuilder:
    def __init__(self):
        self.events = []

    def reset(self):
        self.events = []

    def start_rule(self, r):
        self.events.append(("start", r))

    def end_rule(self, r):
        self.events.append(("end", r))

    def build(self, token):
        self.events.append(("build", getattr(token, "matched_type", None), "EOF" if token.eof() else token.location["line"]))

    def get_result(self):
        return {"events": list(self.events)}


class StubToken(Token):
    """A Token that can carry the harness's `kinds` even if Token itself is given __slots__."""
    kinds = frozenset()


def tok(kinds, line=1):
    if "EOF" in kinds:
        t = StubToken("", {"line": line})
    else:
        t = StubToken(GherkinLine("  stub line %d\n" % line, line), {"line": line})
    t.kinds = set(kinds)
    return t


class StubScanner:
    def __init__(self, tokens):
        self.tokens = list(tokens)
        self.i = 0
        self.reads = 0

    def read(self):
        self.reads += 1
        if self.reads > len(self.tokens) + 2000:
            raise probe.WorkBoundExceeded("the stub scanner was read %d times for %d tokens" % (self.reads, len(self.tokens)))
        if self.i < len(self.tokens):
            t = self.tokens[self.i]
            self.i += 1
            return t
        return tok({"EOF"}, len(self.tokens) + 1)


def drive(state, token, following):
    """One real Parser.match_token step on a stub context.
    -> dict(events, new_state, calls, error message|None, la calls)"""
    b = RecBuilder()
    p = Parser(b)
    m = StubMatcher()
    ctx = ParserContext(StubScanner(following), m, deque(), [])
    la = []
    scanner = ctx.token_scanner
    # (look-ahead is observed by its effects — tokens read from the scanner and re-queued, alternative taken —
    #  not by hooking lookahead_0/1, so a parser with differently organised helpers is observed just the same)
    err = None
    new = None
    try:
        new = p.match_token(state, token, ctx)
    except (Exception, probe.WorkBoundExceeded) as e:            # only RuntimeError('Unknown state') is legitimate here
        err = "raised %s: %s" % (type(e).__name__, e)
    msg = str(ctx.errors[0]) if ctx.errors else None
    # calls on the *current* token only (look-ahead calls go to following tokens)
    return {"events": [e[:1] if e[0] == "build" else e for e in b.events], "new": new, "calls": m.calls, "error": msg,
            "la": la, "raised": err, "queue": len(ctx.token_queue), "nerrors": len(ctx.errors), "reads": scanner.reads}


LA_NEXT = {(False, False): {"Other"}, (True, False): {"ScenarioLine", "Other"}, (False, True): {"ExamplesLine", "Other"},
           (True, True): {"ScenarioLine", "ExamplesLine", "Other"}}


def observe_table(M):
    """The behaviour function of the generated parser, observed at run time."""
    table, rep, lists, la_targets = observe.sibling_table()
    observed = {}
    states = [s for s in range(0, 43) if s != 34]
    for s in states:
        # (a) a token that matches nothing: ordered list of tests + expected list
        r = drive(s, tok(set()), [])
        M.count("cells_probed")
        if r["raised"]:
            M.violation("C02.table", {"what": "state function missing or raising", "state": s, "error": r["raised"]}, {"kind": "cell", "state": s})
            continue
        m = re.match(r"^\(1:3\): expected: (.*), got 'stub line 1'$", r["error"] or "")
        exp = m.group(1).split(", ") if m else None
        # test order as seen on the current token: strip the look-ahead's calls (none here: nothing matched)
        order = r["calls"]
        observed[s] = {"order": order, "expected": exp, "stay": r["new"], "cells": {}}
        for k in KINDS:
            for (la0, la1), nxt in LA_NEXT.items():
                if k != "TagLine" and (la0 or la1):
                    continue
                kinds = {k} if k in ("EOF", "Other") else {k}
                t = tok(kinds)
                rr = drive(s, t, [tok(nxt, 2)])
                M.count("cells_probed")
                observed[s]["cells"][(k, la0, la1)] = rr
    return observed


def expected_cell(table, s, kind, la0, la1, kinds_of_token):
    """What the consensus table prescribes for a token matching exactly `kinds_of_token`."""
    la = {0: la0, 1: la1}
    for k, guard, ev, to in table[s][0]:
        if k in kinds_of_token:
            if guard is not None and not la[guard]:
                continue
            return [("build",) if e == ("build",) else tuple(e) for e in ev], to
    return None


def run_table(M):
    table, rep, lists, la_targets = observe.sibling_table()
    if rep["undecided_states"]:
        M.inconc("sibling parsers disagree among themselves in states %s" % rep["undecided_states"])
    obs = observe_table(M)
    g = observe.grammar()
    pytable = {}
    for s, o in obs.items():
        case = {"kind": "cell", "state": s}
        want_order = [k for k, guard, ev, to in table[s][0]]
        if o["order"] != want_order:
            M.violation("C02.table", {"what": "order of matcher tests differs from the sibling parsers", "state": s,
                                      "observed": o["order"], "siblings": want_order}, case)
        want_exp = [e for e in table[s][1]]
        if o["expected"] != want_exp:
            M.violation("C02.table", {"what": "expected-token list differs from the sibling parsers", "state": s,
                                      "observed": o["expected"], "siblings": want_exp}, case)
        if o["stay"] != s:
            M.violation("C02.table", {"what": "parser does not stay in its state after an unexpected token", "state": s, "new": o["stay"]}, case)
        trans = []
        for (k, la0, la1), rr in o["cells"].items():
            want = expected_cell(table, s, k, la0, la1, {k})
            got = None if rr["error"] else ([tuple(e) for e in rr["events"]], rr["new"])
            if rr["raised"]:
                got = ("raised", rr["raised"])
            if want is None:
                ok = got is None
            else:
                ok = got is not None and got[0] == [tuple(e) for e in want[0]] and got[1] == want[1]
            M.cover("cells", "%d/%s/%d%d" % (s, k, la0, la1))
            if not ok:
                M.violation("C02.table", {"what": "observed transition differs from the sibling parsers", "state": s, "kind": k,
                                          "lookahead": {"ScenarioLine": la0, "ExamplesLine": la1},
                                          "observed": got, "siblings": want}, dict(case, kind=k, la=[la0, la1]))
            # look-ahead must re-queue exactly the tokens it read, and read each only once
            if k == "TagLine" and rr["reads"] and rr["queue"] != rr["reads"]:
                M.violation("C02.table", {"what": "look-ahead did not re-queue the token it read", "state": s, "queue": rr["queue"]}, case)
        # table in bisimulation format, from observation only
        seen = set()
        for k in o["order"]:
            if k in seen and k != "TagLine":
                continue
            seen.add(k)
        T = []
        done_tag = False
        for k in o["order"]:
            if k == "TagLine":
                if done_tag:
                    continue
                done_tag = True
                # guarded alternatives, identified by their effect: an alternative guarded by "ExamplesLine ahead"
                # (id 1) / "ScenarioLine ahead" (id 0) exists iff that look-ahead outcome changes what happens;
                # their order is read off the case where both are ahead
                none = o["cells"][("TagLine", False, False)]
                out = lambda rr: None if (rr["error"] or rr["raised"]) else (tuple(tuple(e) for e in rr["events"]), rr["new"])
                ex, sc, both = o["cells"][("TagLine", False, True)], o["cells"][("TagLine", True, False)], o["cells"][("TagLine", True, True)]
                guards = []
                if out(ex) != out(none):
                    guards.append((1, ex))
                if out(sc) != out(none):
                    guards.append((0, sc))
                if len(guards) == 2 and out(both) == out(sc):
                    guards.reverse()
                for gid, rr in guards:
                    if not rr["error"] and not rr["raised"]:
                        T.append(("TagLine", gid, tuple(tuple(e) for e in rr["events"]), rr["new"]))
                if not none["error"] and not none["raised"]:
                    T.append(("TagLine", None, tuple(tuple(e) for e in none["events"]), none["new"]))
                continue
            rr = o["cells"][(k, False, False)]
            if not rr["error"] and not rr["raised"]:
                T.append((k, None, tuple(tuple(e) for e in rr["events"]), rr["new"]))
        pytable[s] = (T, [e.lstrip("#") for e in (o["expected"] or [])])
    # look-ahead windows: the helpers must skip exactly #Empty/#Comment/#TagLine and stop at the first other token
    skip = ["Empty", "Comment", "TagLine"]
    enders = {"ScenarioLine": (True, False), "ExamplesLine": (False, True), "Other": (False, False), "EOF": (False, False),
              "StepLine": (False, False), "RuleLine": (False, False)}
    for s, o in obs.items():
        if "TagLine" not in o["order"]:
            continue
        for n in range(0, 4):
            for arr in itertools.product(skip, repeat=n):
                for ender, (la0, la1) in enders.items():
                    following = [tok({k, "Other"}, 2 + j) for j, k in enumerate(arr)]
                    if ender != "EOF":
                        following.append(tok({ender, "Other"} if ender != "Other" else {"Other"}, 2 + n))
                    rr = drive(s, tok({"TagLine"}), following)
                    M.count("cells_probed")
                    M.count("lookahead_windows_probed")
                    want = expected_cell(table, s, "TagLine", la0, la1, {"TagLine"})
                    got = None if rr["error"] else ([tuple(e) for e in rr["events"]], rr["new"])
                    ok = (want is None and got is None) or (want is not None and got is not None and
                                                             got[0] == [tuple(e) for e in want[0]] and got[1] == want[1])
                    nread = n + 1
                    if rr["reads"] and rr["queue"] != rr["reads"]:
                        ok = False
                    if not ok:
                        M.violation("C02.lookahead", {"what": "look-ahead over a window of skipped lines decides differently from the grammar hint "
                                                              "(skip #Empty/#Comment/#TagLine, stop at the first other token) or does not re-queue what it read",
                                                      "state": s, "window": list(arr), "next": ender, "observed": got, "expected": want,
                                                      "queue_after": rr["queue"], "tokens_in_window": nread},
                                    {"kind": "cell", "state": s})
    # priority: a token matching two kinds takes the alternative that is tested first
    for s, o in obs.items():
        order = [k for i, k in enumerate(o["order"]) if k not in o["order"][:i]]
        for k1, k2 in itertools.combinations(order, 2):
            if "EOF" in (k1, k2) or "TagLine" in (k1, k2):
                continue
            rr = drive(s, tok({k1, k2}), [tok({"Other"}, 2)])
            M.count("cells_probed")
            a = o["cells"][(k1, False, False)]
            if (rr["events"], rr["new"]) != (a["events"], a["new"]):
                M.violation("C02.table", {"what": "a token matching two kinds did not take the first-tested alternative", "state": s, "kinds": [k1, k2]},
                            {"kind": "cell", "state": s})
    # bisimulation with the grammar automaton, from the start state
    la_t = {0: "ScenarioLine", 1: "ExamplesLine"}
    pairs, checks, mism, seen = g.bisimulate(pytable, la_t)
    M.count("bisimulation_checks", checks)
    M.count("bisimulation_pairs", pairs)
    M.notes["bisimulation"] = {"state_pairs": pairs, "checks": checks, "states_reached": len(set(s for s, _ in seen))}
    for mm in mism[:6]:
        M.violation("C02.bisim", {"what": "observed table is not bisimilar to the automaton derived from gherkin.berp", "mismatch": mm},
                    {"kind": "bisim"})
    M.case("table")
    M.sample({"state": 0, "observed_order": obs[0]["order"], "observed_expected": obs[0]["expected"]})


# ------------------------------------------------------------------ kind-level sequences through the real Parser.parse

def ref_run(kinds):
    """Automaton R1 over a kind sequence with error recovery (stay, next line) and the 11-error stop."""
    g = observe.grammar()
    q = g.q0
    events = [("start", g.order[0])]
    errors = []
    seq = list(kinds) + ["EOF"]
    for i, kind in enumerate(seq):
        la = {}
        for target in ("ScenarioLine", "ExamplesLine"):
            j = i + 1
            res = False
            while j < len(seq):
                if seq[j] == target:
                    res = True
                    break
                if seq[j] not in ("Empty", "Comment", "TagLine"):
                    break
                j += 1
            la[target] = res
        step = g.ref_step(q, kind, la)
        if step is None:
            errors.append((i + 1, frozenset(g.expected_set(q))))
            if len(errors) > 10:
                return events, errors, False
            continue
        ev, q2 = step
        for e in ev:
            events.append(e)
        q = q2
    events.append(("end", g.order[0]))
    return events, errors, True


def real_run(kinds, stop=False):
    toks = [tok({k, "Other"} if k != "Other" else {"Other"}, i + 1) for i, k in enumerate(kinds)]
    b = RecBuilder()
    p = Parser(b)
    p.stop_at_first_error = stop
    sc = StubScanner(toks)
    errors = []
    try:
        p.parse(sc, StubMatcher())
        status = "ok"
    except CompositeParserException as e:
        status = "errors"
        errors = e.errors
    except ParserException as e:
        status = "single"
        errors = [e]
    except probe.WorkBoundExceeded as e:
        status = "work-bound-exceeded: %s" % e
    evs = [e[:1] if e[0] == "build" else e for e in b.events]
    errs = []
    for e in errors:
        m = re.match(r"^\((\d+):(\d+)\): (?:expected: (.*), got '.*'|unexpected end of file, expected: (.*))$", str(e), re.S)
        lst = (m.group(3) or m.group(4)).split(", ") if m else ["?"]
        errs.append((e.location["line"], frozenset(x.lstrip("#") for x in lst)))
    return status, evs, errs, sc.reads


def check_kind_seq(kinds, M):
    M.case(h64(kinds))
    M.count("kind_sequences")
    want_ev, want_err, finished = ref_run(kinds)
    status, evs, errs, reads = real_run(kinds)
    case = {"kind": "kinds", "kinds": list(kinds)}
    if status == "ok":
        M.count("kind_sequences_accepted")
    if (status == "ok") != (not want_err):
        M.violation("C02.seq", {"what": "token sequence accepted by one of {real parser, grammar automaton} and rejected by the other",
                                "kinds": list(kinds), "real": status, "grammar_errors": [e[0] for e in want_err]}, case)
        return
    if evs != [tuple(e) for e in want_ev]:
        M.violation("C02.seq", {"what": "builder events differ from the grammar's derivation", "kinds": list(kinds),
                                "real": evs[-6:], "grammar": want_ev[-6:]}, case)
    if errs != want_err:
        M.violation("C02.seq", {"what": "error lines / expected sets differ from the grammar automaton", "kinds": list(kinds),
                                "real": [(l, sorted(s)) for l, s in errs][:3], "grammar": [(l, sorted(s)) for l, s in want_err][:3]}, case)
    if finished and reads != len(kinds) + 1:
        M.violation("C02.seq", {"what": "scanner read count differs from lines+EOF", "reads": reads, "lines": len(kinds)}, case)
    # stop mode: first error only
    if want_err:
        st2, ev2, er2, _ = real_run(kinds, stop=True)
        if st2 != "single" or er2 != want_err[:1]:
            M.violation("C02.seq", {"what": "stop-at-first-error does not raise the first error of collecting mode", "kinds": list(kinds),
                                    "real": [(l, sorted(s)) for l, s in er2], "want": [(l, sorted(s)) for l, s in want_err[:1]]}, case)


# ------------------------------------------------------------------ text-level sequences (real matcher)

TEXT_LINES = ["Feature: F", "Rule: R", "Background: B", "Scenario: S", "Examples: X", "Given x", "@t1 @t2", "| a | b |",
              '"""', "# comment", "# language: en", "", "free text"]


def check_text_seq(idxs, M):
    L = [(0, noisy.IDX[TEXT_LINES[i]]) for i in idxs]
    text = noisy.text_of(L)
    M.case(h64(text))
    M.count("text_sequences")
    sim = noisy.simulate(L, False)
    o = observe.parse_observed(text)
    case = {"kind": "text", "idxs": list(idxs), "text": text}
    real_ev = [(e[0], e[1]) for e in o.log.events]
    if (o.status == "ok") != sim["accepted"] or real_ev != sim["events"] or o.err_messages() != sim["errors"]:
        M.violation("C02.text", {"what": "real parse of a line sequence differs from the table simulator (acceptance/events/errors)",
                                 "text": text, "real": [o.status, o.err_messages()[:2]], "sim": [sim["accepted"], sim["errors"][:2]]}, case)
    apply_parse_monitors(o, M, case, {"G4"})
    cover_transitions(o, M)


def check_doc_vs_grammar(R, o, M, case):
    """A generated document (intended line kinds known): accepted exactly if the kinds are a sentence of the grammar,
    and the nesting reported to the builder is the grammar's derivation of them."""
    apply_parse_monitors(o, M, case, {"G4"})
    cover_transitions(o, M)
    acc, read_as, gev = grammar_mod.grammar_reading(observe.grammar(), R.kinds)
    M.count("acceptance_compared")
    if o.status == "crash":
        return              # G1 (evaluated above) reports it
    if acc != (o.status == "ok"):
        M.violation("C02.acceptance", {"what": "document whose line kinds are %s sentence of the grammar was %s" % (
            "a" if acc else "no", "accepted" if o.status == "ok" else "rejected"), "errors": o.err_messages()[:2]}, case)
        return
    if o.status == "ok":
        real = [(e[0], e[1]) for e in o.log.events]
        want = [(e[0], e[1]) for e in gev]
        M.count("derivations_compared")
        if real != want:
            M.violation("C02.nesting", {"what": "builder events differ from the grammar's derivation of the document",
                                        "real": real[:12], "grammar": want[:12]}, case)


def plan(tier, seed):
    q = tier == "quick"
    specs = [{"family": "table", "seed": seed, "n": 1}]
    L = 4 if q else 5
    for a in LINE_KINDS:
        if q:
            specs.append({"family": "kinds", "prefix": [a], "L": L, "seed": seed, "n": 1})
        else:
            for b in LINE_KINDS:
                specs.append({"family": "kinds", "prefix": [a, b], "L": L, "seed": seed, "n": 1})
    for first in ("TagLine", "Comment", "Empty"):
        specs.append({"family": "windows", "first": first, "L": 4 if q else 6, "seed": seed, "n": 1})
    specs += shards("guided", 3000 if q else 100000, 500 if q else 5000, seed, maxlen=9 if q else 14)
    LT = 3 if q else 4
    for a in range(len(TEXT_LINES)):
        specs.append({"family": "text", "first": a, "L": LT, "seed": seed, "n": 1})
    specs += shards("docs", 600 if q else 30000, 150 if q else 3000, seed)
    specs += shards("reused", 1600 if q else 60000, 400 if q else 4000, seed)
    for part in range(8):
        specs.append({"family": "thresholds", "part": part, "parts": 8, "tier": tier, "seed": seed, "n": 1})
    for first in ("TagLine", "Comment", "Empty"):
        specs.append({"family": "long_windows", "first": first, "seed": seed, "n": 1})
    specs += shards("interleaved", 60 if q else 2400, 20 if q else 200, seed)
    specs += shards("other_default", 400 if q else 16000, 100 if q else 2000, seed)
    specs.append({"family": "corpus", "seed": seed, "n": 1})
    specs.append({"family": "w0", "seed": seed, "n": 1})
    return specs


def run_shard(spec, M):
    fam = spec["family"]
    if fam == "table":
        run_table(M)
    elif fam == "kinds":
        pre = spec["prefix"]
        L = spec["L"]
        if len(pre) == 1:
            check_kind_seq(pre, M)
        if len(pre) <= 2 and L >= len(pre):
            lens = range(len(pre) if len(pre) > 1 else 2, L + 1)
            for n in lens:
                for rest in itertools.product(LINE_KINDS, repeat=n - len(pre)):
                    check_kind_seq(list(pre) + list(rest), M)
        if pre == ["Empty"]:
            check_kind_seq([], M)
        M.sample({"kinds": pre + ["..."], "L": L})
    elif fam == "windows":
        prefixes = [["FeatureLine"], ["FeatureLine", "ScenarioLine"], ["FeatureLine", "ScenarioLine", "StepLine"],
                    ["FeatureLine", "ScenarioLine", "ExamplesLine", "TableRow"], ["FeatureLine", "RuleLine", "ScenarioLine", "StepLine", "TableRow"],
                    ["FeatureLine", "BackgroundLine", "StepLine"], ["FeatureLine", "ScenarioLine", "Other"],
                    ["FeatureLine", "RuleLine", "BackgroundLine", "StepLine", "DocStringSeparator", "DocStringSeparator"]]
        terms = [["ExamplesLine"], ["ScenarioLine"], ["RuleLine"], [], ["Other"], ["StepLine"], ["ExamplesLine", "TagLine", "ScenarioLine"]]
        for n in range(1, spec["L"] + 1):
            for rest in itertools.product(("TagLine", "Comment", "Empty"), repeat=n - 1):
                for pre in prefixes:
                    for t in terms:
                        check_kind_seq(pre + [spec["first"]] + list(rest) + t, M)
    elif fam == "guided":
        # longer sequences guided by the automaton: a valid prefix, then every kind of one-step extension, then a valid tail
        g = observe.grammar()
        for i in range(spec["start"], spec["start"] + spec["n"]):
            r = rng(spec["seed"], ID, "guided", i)
            kinds = []
            q = g.q0
            for _ in range(r.randint(3, spec["maxlen"])):
                opts = [c[0] for c in g.reach(q) if c[0] != "EOF"]
                if not opts or r.random() < 0.1:
                    k = r.choice(LINE_KINDS)       # possibly unexpected here
                else:
                    k = r.choice(opts)
                kinds.append(k)
                # advance optimistically (look-ahead outcome unknown yet): recompute from scratch
                _, errs, _ = ref_run(kinds)
                acc, _, _ = (True, None, None)
                # follow the automaton along the valid part
                qq = g.q0
                seq = kinds + ["EOF"]
                for j, kk in enumerate(kinds):
                    la = {}
                    for target in ("ScenarioLine", "ExamplesLine"):
                        jj = j + 1
                        res = False
                        while jj < len(seq):
                            if seq[jj] == target:
                                res = True
                                break
                            if seq[jj] not in ("Empty", "Comment", "TagLine"):
                                break
                            jj += 1
                        la[target] = res
                    st = g.ref_step(qq, kk, la)
                    if st is not None:
                        qq = st[1]
                q = qq
            check_kind_seq(kinds, M)
    elif fam == "text":
        L = spec["L"]
        for n in range(1, L + 1):
            for rest in itertools.product(range(len(TEXT_LINES)), repeat=n - 1):
                check_text_seq([spec["first"]] + list(rest), M)
    elif fam == "docs":
        for i in range(spec["start"], spec["start"] + spec["n"]):
            R = doccheck.make_doc(spec["seed"], "C02", i)
            as_file = i % 3 == 0 and observe.file_loadable(R.text)
            if as_file:
                M.count("parses_from_files")
            o = observe.parse_observed(R.text, as_file=as_file, as_scanner=(i % 3 == 1))
            M.case(h64(R.text))
            check_doc_vs_grammar(R, o, M, {"kind": "doc", "text": R.text})
    elif fam == "reused":
        # the same two comparisons on objects that have parsed other documents before (accepted, rejected, abandoned
        # inside a doc string or while look-ahead tokens were buffered): acceptance is a function of the document alone
        env = ReusedEnv(rng(spec["seed"], ID, "reuse", spec["shard"]))
        env.spec = spec
        for i in range(spec["start"], spec["start"] + spec["n"]):
            r = rng(spec["seed"], ID, "reused", i)
            if i % 2:
                R = doccheck.make_doc(spec["seed"], "C02r", i)
                o = env.parse(R.text, M)
                M.case(h64(R.text))
                check_doc_vs_grammar(R, o, M, {"kind": "shard", "spec": spec, "text": R.text})
            else:
                L = noisy.gen_any(r, 24)
                text = noisy.text_of(L)
                stop = r.random() < 0.3
                sim = noisy.simulate(L, stop)
                o = env.parse(text, M, stop=stop)
                M.case(h64(text))
                M.count("text_sequences")
                case = {"kind": "shard", "spec": spec, "text": text}
                real_ev = [(e[0], e[1]) for e in o.log.events] if o.log is not None else None
                if (o.status == "ok") != sim["accepted"] or real_ev != sim["events"] or o.err_messages() != sim["errors"]:
                    M.violation("C02.text", {"what": "parse of a line sequence on used Parser/TokenMatcher objects differs from the table simulator (acceptance/events/errors)",
                                             "text": short(text, 300), "real": [o.status, o.err_messages()[:2]], "sim": [sim["accepted"], sim["errors"][:2]]}, case)
                apply_parse_monitors(o, M, case, {"G4"})
                cover_transitions(o, M)
    elif fam == "other_default":
        # a matcher whose default dialect is NOT the document's: the '# language:' header (also a header that names English)
        # decides; acceptance and nesting as for any other document
        from gherkin.token_matcher import TokenMatcher as _TM
        defaults = ["fr", "no", "de", "ja", "ru", "em", "en-lol", "ht"]
        for i in range(spec["start"], spec["start"] + spec["n"]):
            d0 = defaults[i % len(defaults)]
            kw = {"dialect": "en"} if i % 2 == 0 else {}
            R = doccheck.make_doc(spec["seed"], "C02d", i, default_dialect=d0, **kw)
            if R.dialect == d0:
                continue
            o = observe.parse_observed(R.text, matcher=_TM(d0))
            M.case(h64([d0, R.text]))
            M.count("parses_with_another_default_dialect")
            check_doc_vs_grammar(R, o, M, {"kind": "other_default", "default": d0, "text": R.text})
    elif fam == "interleaved":
        # several Parser objects at work at the same time (own threads, turns taken at token fetches, no matcher passed):
        # whether a document is accepted is a matter of that document alone
        from . import c15
        from ..perturb import POOL as PPOOL
        hot = [PPOOL[n] for n in ("open_doc", "open_bt", "hdr_fr", "hdr_no_crlf", "open_doc_in_fr", "outline", "badlang")]
        for i in range(spec["start"], spec["start"] + spec["n"]):
            r = rng(spec["seed"], ID, "interleaved", i)
            Rs = [doccheck.make_doc(spec["seed"], "C02i", 3 * i + k, size="small") for k in range(2)]
            texts = [R.text for R in Rs] + [r.choice(hot)]
            solo, runs = c15.interleaved(texts, r, n_schedules=2)
            M.case(h64(["interleaved", texts]))
            for res in runs:
                M.count("interleaved_parses", len(res))
                for k, (R, got) in enumerate(zip(Rs, res)):
                    acc = grammar_mod.grammar_reading(observe.grammar(), R.kinds)[0]
                    case = {"kind": "interleaved", "texts": texts}
                    if got[0] == "crash" or (got[0] == "ok") != acc:
                        M.violation("C02.acceptance", {"what": "a document whose line kinds are %s sentence of the grammar was %s while other Parser objects were parsing other documents at the same time" % (
                            "a" if acc else "no", {"ok": "accepted", "crash": "aborted by " + str(got[1:3])}.get(got[0], "rejected")), "errors": short(got[1], 200) if got[0] != "ok" else None}, case)
                    elif got != solo[k]:
                        M.violation("C02.nesting", {"what": "result of a parse that ran while other Parser objects were parsing differs from its result alone",
                                                    "alone": short(solo[k], 200), "interleaved": short(got, 200)}, case)
    elif fam == "thresholds":
        # one dimension of the document has size n around 10, 32, 64, 100, 128, 256, 512, 1000, 1024 (look-ahead windows,
        # tag lines, comments, blank lines, steps, rows, scenarios, rules, ...): still a sentence, still the same derivation
        for dim, n in thresholds.cases(spec["tier"], spec["part"], spec["parts"]):
            R = thresholds.build(dim, n)
            o = observe.parse_observed(R.text)
            M.case(h64(["threshold", dim, n]))
            M.count("threshold_documents")
            M.hist("threshold_dims", dim)
            check_doc_vs_grammar(R, o, M, {"kind": "threshold", "dim": dim, "n": n})
    elif fam == "long_windows":
        # look-ahead windows of 31..257 tag/comment/blank tokens (stub matcher: kinds only) before each kind of terminator
        prefixes = [["FeatureLine", "ScenarioLine", "StepLine"], ["FeatureLine", "ScenarioLine", "ExamplesLine", "TableRow"],
                    ["FeatureLine", "RuleLine", "ScenarioLine", "StepLine", "TableRow"], ["FeatureLine", "BackgroundLine", "StepLine"]]
        terms = [["ExamplesLine"], ["ScenarioLine"], ["RuleLine"], [], ["Other"]]
        r = rng(spec["seed"], ID, "long_windows", spec["first"])
        for n in (15, 16, 17, 31, 32, 33, 63, 64, 65, 99, 100, 101, 127, 128, 129, 255, 256, 257):
            for variant in range(3):
                if variant == 0:
                    rest = [spec["first"]] * (n - 1)
                else:
                    rest = [r.choice(("TagLine", "Comment", "Empty")) for _ in range(n - 1)]
                for pre in prefixes:
                    for t in terms:
                        M.count("long_windows_probed")
                        check_kind_seq(pre + [spec["first"]] + rest + t, M)
    elif fam == "w0":
        from .base import run_repo_tests_under_monitors
        run_repo_tests_under_monitors(M, {"G4"})
    elif fam == "corpus":
        for g_ in corpus.good() + corpus.bad():
            o = observe.parse_observed(g_["text"])
            M.case(h64(g_["text"]))
            apply_parse_monitors(o, M, {"kind": "doc", "text": g_["text"]}, {"G4"})
            cover_transitions(o, M)


def replay(case, M):
    k = case["kind"]
    if k in ("cell", "bisim"):
        run_table(M)
    elif k == "kinds":
        check_kind_seq(case["kinds"], M)
    elif k == "text":
        check_text_seq(case["idxs"], M)
    elif k == "shard":
        run_shard(case["spec"], M)
    elif k == "other_default":
        from gherkin.token_matcher import TokenMatcher as _TM
        o = observe.parse_observed(case["text"], matcher=_TM(case["default"]))
        apply_parse_monitors(o, M, case, {"G4"})
        if o.status != "ok":
            M.violation("C02.acceptance", {"what": "replay: document rejected by a matcher with another default dialect", "errors": o.err_messages()[:2]}, case)
    elif k == "interleaved":
        from . import c15
        import random as _random
        solo, runs = c15.interleaved(case["texts"], _random.Random(0), n_schedules=20)
        for res in runs:
            if res != solo:
                M.violation("C02.nesting", {"what": "result of a parse that ran while other Parser objects were parsing differs from its result alone",
                                            "alone": short(solo, 200), "interleaved": short(res, 200)}, case)
                break
    elif k == "threshold":
        R = thresholds.build(case["dim"], case["n"])
        check_doc_vs_grammar(R, observe.parse_observed(R.text), M, case)
    else:
        o = observe.parse_observed(case["text"])
        apply_parse_monitors(o, M, case, {"G4"})


def finish(M, tier):
    return {"exhaustive": True,
            "exhaustive_subspace": "42 states x 14 token kinds x look-ahead outcomes at Parser.match_token; all kind sequences up to length %d; all sequences of %d representative real lines up to length %d" % (
                4 if tier == "quick" else 5, len(TEXT_LINES), 3 if tier == "quick" else 4),
            "cells_distinct": len(M.sets.get("cells", ())),
            "transitions_covered_by_full_parses": len(M.sets.get("transitions", ())), "transitions_total": 334,
            "bisimulation": M.notes.get("bisimulation")}
