"""C09 — example values replace <header> placeholders literally, everywhere they apply."""
from __future__ import annotations

import itertools

from ..common import h64, short
from .base import rng, shards
from . import picklecheck as pc
from .. import observe, refcells

ID = "C09"
LEVEL = "exploration"
SIGMA = ["a", ".", "(", "\\", "$", "<", ">", "*", "1", "|"]
TEMPLATES = ["<%s>", "<%s><%s>", "x<%s>y", "<x>", "<<%s>>", "\\1", "\\g<0>", "$1", "plain", "", "<%s", "%s>", "< %s >",
             "<%s>\\", "\\<%s>", "<a>", "<.>", "<..>", "a<%s>a<%s>a", "<%s>\n<%s>", "<>", "<<>>", "<%s>|<%s>", "&<%s>", "<%s>$"]
RULE = ("(a) exhaustive: every header name and every value over the adversarial alphabet " + "".join(SIGMA) +
        " up to a length bound (quick: names<=2, values<=1 plus a fixed hostile list; thorough: names<=3, values<=2) x "
        "%d templates, placed in scenario name, step text, data table cell, doc string content and media type of a one-row "
        "outline with a background step carrying the same template, compiled on AST dictionaries; two-column cases where the "
        "first value produces the second placeholder (header order); (b) random AST dictionaries with hostile header names and "
        "values in every argument kind; (c) W2 documents through the real parser (cells escaped by the reference escaper).  "
        "Oracle: sequential literal str.replace per header cell (R4).  Distinct = hash of (headers, values, template) / AST." % len(TEMPLATES))
ASSUMPTIONS = ["R4's substitution is literal str.replace applied column by column in header order — the property's own wording",
               "background steps carry the same templates and must come out unsubstituted"]
DECIDING = ["compile_calls", "pickles_compared", "exhaustive_triples"]
HOSTILE_VALUES = ["", "1", "\\", "\\1", "\\g<0>", "$1", "<a>", "(", "\\\\", "&", "\\n", "|", ".*"]


def words(maxlen):
    out = [""]
    for n in range(1, maxlen + 1):
        out += ["".join(p) for p in itertools.product(SIGMA, repeat=n)]
    return out


def plan(tier, seed):
    q = tier == "quick"
    names = words(2 if q else 3)
    specs = []
    per = 8 if q else 40
    for s in range(0, len(names), per):
        specs.append({"family": "exhaustive", "names": names[s:s + per], "vmax": 1 if q else 2, "seed": seed, "n": per})
    specs += shards("twocol", 1, 1, seed)
    specs += shards("direct", 20000 if q else 2000000, 2500 if q else 50000, seed)
    specs += shards("reused_compiler", 10000 if q else 500000, 2500 if q else 50000, seed)
    specs += [{"family": "threads", "seed": seed + k, "n": 1, "rounds": 25 if q else 300} for k in range(2 if q else 8)]
    specs += shards("parsed", 2000 if q else 100000, 250 if q else 4000, seed)
    return specs


def loc():
    return {"line": 1, "column": 1}


def outline_doc(headers, values, template):
    """One outline with the template in every substitutable place + a background with the same template."""
    n = template.count("%s")
    t = template % tuple([headers[0]] * n) if n else template
    def step(text, arg):
        s = {"location": loc(), "keyword": "Given ", "keywordType": "Context", "text": text}
        if arg == "table":
            s["dataTable"] = {"location": loc(), "rows": [{"location": loc(), "cells": [{"location": loc(), "value": t}]}]}
        elif arg == "doc":
            s["docString"] = {"location": loc(), "content": t, "delimiter": '"""', "mediaType": t}
        return s
    return {"feature": {"tags": [], "location": loc(), "language": "en", "keyword": "Feature", "name": "f", "description": "",
                        "children": [
                            {"background": {"location": loc(), "keyword": "Background", "name": "", "description": "",
                                            "steps": [step(t, "table"), step(t, "doc")]}},
                            {"scenario": {"location": loc(), "tags": [], "keyword": "Scenario Outline", "name": t, "description": "",
                                          "steps": [step(t, None), step(t, "table"), step(t, "doc")],
                                          "examples": [{"location": loc(), "tags": [], "keyword": "Examples", "name": "", "description": "",
                                                        "tableHeader": {"location": loc(), "cells": [{"location": loc(), "value": h} for h in headers]},
                                                        "tableBody": [{"location": loc(), "cells": [{"location": loc(), "value": v} for v in values]}]}]}}]},
            "comments": []}, t


def check_triple(headers, values, template, M):
    doc, t = outline_doc(headers, values, template)
    k = pc.assign_ids(doc)
    M.case(h64([headers, values, template]))
    M.count("exhaustive_triples")
    if set("".join(headers)) & pc._META:
        M.count("headers_with_regex_metacharacter")
    case = {"kind": "triple", "headers": headers, "values": values, "template": template}
    got = pc.compare(doc, "u", k, ID, M, case)
    if got:
        # background steps must be untouched (stated explicitly by the property)
        p = got[0]
        for s in p["steps"][:2]:
            M.count("background_steps_checked")
            if s["text"] != t:
                M.violation("C09.background", {"what": "background step was substituted", "got": s["text"], "template": t}, case)


def run_shard(spec, M):
    fam, seed = spec["family"], spec["seed"]
    if fam == "exhaustive":
        values = words(spec["vmax"]) + HOSTILE_VALUES
        for h in spec["names"]:
            for v in values:
                for tmpl in TEMPLATES:
                    check_triple([h], [v], tmpl, M)
        M.sample({"headers": spec["names"][:5], "values": values[:8], "templates": TEMPLATES[:6]})
    elif fam == "twocol":
        # header order: the first column's value produces the second column's placeholder, and vice versa
        for h1, h2 in itertools.permutations(["a", "b", ".", "a.b", "(", "\\"], 2):
            for v1, v2 in [("<%s>" % h2, "X"), ("X", "<%s>" % h1), ("<%s>" % h2, "<%s>" % h1), ("\\1", "$"), ("", "")]:
                for tmpl in ["<%s>", "<" + h2 + "><%s>", "<%s><" + h2 + ">", "<<%s>>"]:
                    check_triple([h1, h2], [v1, v2], tmpl, M)
    elif fam == "direct":
        for i in range(spec["start"], spec["start"] + spec["n"]):
            r = rng(seed, ID, "direct", i)
            doc = pc.AstGen(r, hostile_names=True).doc()
            k = pc.assign_ids(doc)
            M.case(h64(doc))
            pc.compare(doc, "u", k, ID, M, {"kind": "ast", "doc": doc, "next_id": k})
    elif fam == "threads":
        pc.threaded_compile(ID, M, seed, rounds=spec["rounds"])
    elif fam == "reused_compiler":
        from gherkin.pickles.compiler import Compiler
        comp = Compiler()
        for i in range(spec["start"], spec["start"] + spec["n"]):
            r = rng(seed, ID, "reused", i)
            doc = pc.AstGen(r, hostile_names=True).doc()
            k = pc.assign_ids(doc)
            M.case(h64(doc))
            pc.compare(doc, "u", k, ID, M, {"kind": "shard", "spec": spec, "index": i}, compiler=comp)
    elif fam == "parsed":
        for i in range(spec["start"], spec["start"] + spec["n"]):
            one_parsed(seed, i, M)


def one_parsed(seed, i, M):
    """An outline rendered as text with hostile header names / values / templates in every argument kind."""
    r = rng(seed, ID, "parsed", i)
    esc = refcells.escape
    def clean(s):
        return s.strip() if s.strip() == s else "x"
    hdrs = [clean(r.choice(pc.NAMES)) for _ in range(r.randint(1, 3))]
    g = pc.AstGen(r)
    def T():
        return clean(g.tmpl(hdrs).replace("\n", " ")) or "t"
    lines = ["Feature: f", "  Background:", "    Given " + T(), "  Scenario Outline: " + T()]
    for kw in ("Given ", "And ", "* "):
        lines.append("    " + kw + T())
        c = r.random()
        if c < 0.35:
            lines.append("      | " + esc(T()) + " | " + esc(T()) + " |")
        elif c < 0.7:
            lines += ['      """' + T().replace('"', ""), "      " + T(), '      """']
    lines.append("    Examples:")
    lines.append("      | " + " | ".join(esc(h) for h in hdrs) + " |")
    for _ in range(r.randint(1, 3)):
        lines.append("      | " + " | ".join(esc(clean(r.choice(pc.VALUES))) for _ in hdrs) + " |")
    text = "\n".join(lines) + "\n"
    o = observe.parse_observed(text)
    if o.status != "ok":
        M.count("advisory.generated_document_rejected")
        return
    M.count("documents_parsed")
    M.case(h64(text))
    k = int(o.idgen.get_next_id())
    pc.compare(o.ast, "u", k, ID, M, {"kind": "parsed", "seed": seed, "index": i, "text": text})


def replay(case, M):
    if case["kind"] == "threads":
        pc.threaded_compile(ID, M, case["seed"], rounds=300)
    elif case["kind"] == "shard":
        run_shard(case["spec"], M)
    elif case["kind"] == "triple":
        check_triple(case["headers"], case["values"], case["template"], M)
    elif case["kind"] == "ast":
        pc.compare(case["doc"], "u", case["next_id"], ID, M, case)
    else:
        one_parsed(case["seed"], case["index"], M)


def finish(M, tier):
    return {"exhaustive": True, "exhaustive_subspace": "header names over the 10-character adversarial alphabet up to length %d x values up to length %d x %d templates" % (
        (2, 1, len(TEMPLATES)) if tier == "quick" else (3, 2, len(TEMPLATES)))}
