"""C10 — every pickle step has a definite type derived from its keyword."""
from __future__ import annotations

import itertools

from ..common import h64, short
from .base import rng, shards
from . import picklecheck as pc
from .. import observe, dialects

ID = "C10"
LEVEL = "exploration"
RULE = ("(a) exhaustive: every sequence over the 5 keyword types (Context, Action, Outcome, Conjunction, Unknown) of total "
        "length 1..L (quick L=5, thorough L=7), every split into feature background | rule background | scenario steps (scenario "
        "part non-empty), compiled as a plain scenario and as a one-row outline on AST dictionaries; expected types by the "
        "running-last rule starting at Unknown, plain and outline must agree, every type one of the four strings; (b) through the "
        "real parser in all 80 dialects with each dialect's first keyword of every category and '* ', sequences up to length 3; "
        "(c) one Compiler reused for thousands of documents whose node ids coincide (random sequences/splits and generated ASTs).  "
        "Distinct = (sequence, split, plain/outline[, dialect]).")
ASSUMPTIONS = ["the running-last rule of the property statement is the oracle (R4), independent of compiler.py"]
DECIDING = ["compile_calls", "sequences_checked", "documents_parsed", "compiles_on_reused_compiler"]
T5 = pc.KTYPES


def plan(tier, seed):
    q = tier == "quick"
    L = 5 if q else 7
    specs = []
    for first in T5:
        for second in [None] + T5:
            specs.append({"family": "exhaustive", "prefix": [first] + ([second] if second else []), "L": L, "seed": seed, "n": 1})
    names = sorted(dialects.master())
    for s in range(0, 80, 10):
        specs.append({"family": "dialects", "dialects": names[s:s + 10], "L": 3 if q else 4, "seed": seed, "n": 10})
    specs += shards("reused_compiler", 8000 if q else 400000, 2000 if q else 50000, seed)
    return specs


def loc():
    return {"line": 1, "column": 1}


def step(t):
    return {"location": loc(), "keyword": pc.KEYWORD[t], "keywordType": t, "text": "t"}


def expected(seq):
    out = []
    last = "Unknown"
    for t in seq:
        last = last if t == "Conjunction" else t
        out.append(last)
    return out


def build(fbg, rbg, own, outline):
    sc = {"location": loc(), "tags": [], "keyword": "Scenario", "name": "s", "description": "", "steps": [step(t) for t in own], "examples": []}
    if outline:
        # two examples tables, the first with two body rows: state must not carry over between rows or tables
        sc["examples"] = [{"location": loc(), "tags": [], "keyword": "Examples", "name": "", "description": "",
                           "tableHeader": {"location": loc(), "cells": [{"location": loc(), "value": "h"}]},
                           "tableBody": [{"location": loc(), "cells": [{"location": loc(), "value": v}]} for v in vals]}
                          for vals in (["v1", "v2"], ["w"])]
    children = []
    if fbg:
        children.append({"background": {"location": loc(), "keyword": "Background", "name": "", "description": "", "steps": [step(t) for t in fbg]}})
    if rbg is not None:
        rc = []
        if rbg:
            rc.append({"background": {"location": loc(), "keyword": "Background", "name": "", "description": "", "steps": [step(t) for t in rbg]}})
        rc.append({"scenario": sc})
        children.append({"rule": {"location": loc(), "tags": [], "keyword": "Rule", "name": "r", "description": "", "children": rc}})
    else:
        children.append({"scenario": sc})
    return {"feature": {"tags": [], "location": loc(), "language": "en", "keyword": "Feature", "name": "f", "description": "", "children": children}, "comments": []}


def check_seq(seq, i, j, M):
    """seq[:i] feature background, seq[i:j] rule background, seq[j:] own steps."""
    fbg, rbg, own = seq[:i], seq[i:j], seq[j:]
    want = expected(seq)
    res = {}
    for outline in (False, True):
        doc = build(fbg, rbg if (rbg or i != j) else None, own, outline)
        k = pc.assign_ids(doc)
        case = {"kind": "seq", "seq": seq, "i": i, "j": j, "outline": outline}
        M.case(h64(["seq", seq, i, j, outline]))
        M.count("sequences_checked")
        got = pc.compare(doc, "u", k, ID, M, case)
        if got:
            types = [[s.get("type") for s in p["steps"]] for p in got]
            res[outline] = types
            if any(t != want for t in types):
                M.count("types_differ_from_statement")
    if len(res) == 2 and any(t != res[False][0] for t in res[True]):
        M.violation("C10.plain_vs_outline", {"what": "plain scenario and outline (some example row) give different step types", "plain": res[False][0], "outline_rows": res[True], "seq": seq},
                    {"kind": "seq", "seq": seq, "i": i, "j": j, "outline": True},
                    mechanism=pc.D2 if any(None in t for t in res[True]) else None)


def run_shard(spec, M):
    if spec["family"] == "exhaustive":
        pre = spec["prefix"]
        L = spec["L"]
        lens = [len(pre)] if len(pre) == 1 else range(2, L + 1)
        for n in lens:
            for rest in itertools.product(T5, repeat=n - len(pre)):
                seq = list(pre) + list(rest)
                for j in range(0, n):          # own steps non-empty
                    for i in range(0, j + 1):
                        check_seq(seq, i, j, M)
        M.sample({"prefix": pre, "L": L})
    elif spec["family"] == "reused_compiler":
        # one Compiler for the whole shard; every document numbers its nodes from 0 (as a fresh Parser per
        # document does), so node ids of different documents coincide: nothing remembered by id may leak
        from gherkin.pickles.compiler import Compiler
        comp = Compiler()
        for i in range(spec["start"], spec["start"] + spec["n"]):
            r = rng(spec["seed"], ID, "reused", i)
            case = {"kind": "shard", "spec": spec, "index": i}
            if i % 2:
                doc = pc.AstGen(r).doc()
            else:
                n = r.randint(1, 6)
                seq = [r.choice(T5) for _ in range(n)]
                j = r.randrange(0, n)
                i0 = r.randint(0, j)
                fbg, rbg, own = seq[:i0], seq[i0:j], seq[j:]
                doc = build(fbg, rbg if (rbg or r.random() < 0.3) else None, own, r.random() < 0.6)
                M.count("sequences_checked")
            k = pc.assign_ids(doc)
            M.case(h64(doc))
            pc.compare(doc, "u", k, ID, M, case, compiler=comp)
    else:
        # a pool of matchers built before any of them is used (one per dialect of the shard): each must go on working with its
        # own dialect whatever the others have done in the meantime
        from gherkin.token_matcher import TokenMatcher as _TM2
        pool = {d: _TM2(d) for d in spec["dialects"]}
        for d in spec["dialects"]:
            run_dialect(d, spec["L"], M)
        for rnd_ in range(2):
            for d in (spec["dialects"] if rnd_ == 0 else list(reversed(spec["dialects"]))):
                sp = dialects.master()[d]
                want, lines = [], [sp["feature"][0] + ": f", "  " + sp["scenario"][0] + ": s"]
                for k, role in dialects.step_keywords(sp):
                    if any(l.strip() == k + "x" for l in lines):
                        continue
                    lines.append("    " + k + "x")
                text = "\n".join(lines) + "\n"
                o = observe.parse_observed(text, matcher=pool[d])
                M.count("matcher_pool_documents")
                case = {"kind": "pool", "dialects": spec["dialects"]}
                if o.status != "ok":
                    M.violation("C10.rejected", {"what": "header-less document rejected by a TokenMatcher(%r) that was built together with matchers of other dialects" % d,
                                                 "errors": o.err_messages()[:2]}, case)
                    continue
                got = pc.compare(o.ast, "u", int(o.idgen.get_next_id()), ID, M, case)
                read = [dialects.expected_step(sp, l.strip())[1] for l in lines[2:]]
                if got and [s_.get("type") for s_ in got[0]["steps"]] != expected(read):
                    M.violation("C10.types", {"what": "step types differ from the statement's rule for a matcher that was built together with matchers of other dialects",
                                              "dialect": d, "got": [s_.get("type") for s_ in got[0]["steps"]], "want": expected(read)}, case)


SHARED = {}


def run_dialect(d, L, M):
    spec = dialects.master()[d]
    cats = {"Context": "given", "Action": "when", "Outcome": "then", "Conjunction": "and", "Conjunction2": "but"}
    kws = {}
    for t, role in cats.items():
        # first keyword of the category that is listed in no other category
        for k in spec[role]:
            roles = {r for kk, r in dialects.step_keywords(spec) if kk == k}
            if len(roles) == 1 or (roles <= {"and", "but"}):
                kws[t] = k
                break
    # a keyword listed in more than one category (as '* ' usually is) has type Unknown
    for k, _ in dialects.step_keywords(spec):
        if len({dialects.CATEGORY_TYPE[r] for kk, r in dialects.step_keywords(spec) if kk == k}) > 1:
            kws["Unknown"] = k
            break
    types = list(kws)
    hdr = ["# language: " + d]      # also for the default dialect: a redundant header must change nothing
    from gherkin.parser import Parser as _P
    from gherkin.token_matcher import TokenMatcher as _TM
    if "pm" not in SHARED:
        from gherkin.ast_builder import AstBuilder as _AB
        from gherkin.stream.id_generator import IdGenerator as _IG
        _g = _IG()
        SHARED["pm"] = (_P(_AB(_g)), _TM("en"), _g)
    shared = SHARED["pm"]
    f = spec["feature"][0]
    bgk = spec["background"][0]
    # '* x' lines in every dialect, also where the dialect does not list '* ': whenever a pickle step carries the keyword
    # '* ' its type is Unknown, and an And/But after it is Unknown too (the statement's rule, whatever the dialect)
    for plain in (True, False):
        lines = hdr + [f + ": f", "  " + (spec["scenario"][0] if plain else spec["scenarioOutline"][0]) + ": s", "    " + kws["Context"] + "a", "    * b",
                       "    " + kws.get("Conjunction", kws["Context"]) + "c"]
        if not plain:
            lines += ["    " + spec["examples"][0] + ":", "      | h |", "      | v |"]
        text = "\n".join(lines) + "\n"
        o = observe.parse_observed(text)
        M.count("star_probes")
        if o.status == "ok":
            k = int(o.idgen.get_next_id())
            got = pc.compare(o.ast, "u", k, ID, M, {"kind": "text", "text": text})
            for p in got or []:
                kw_by_id = {n["id"]: n.get("keyword") for kind_, n in observe.iter_nodes(o.ast) if kind_ == "step"}
                after_star = False
                for st in p["steps"]:
                    kwd = kw_by_id.get(st["astNodeIds"][0])
                    if (kwd == "* " or after_star) and st.get("type") != "Unknown":
                        M.violation("C10.types", {"what": "a pickle step written with '* ' (or an And/But step right after it) has a type other than Unknown",
                                                  "dialect": d, "keyword": kwd, "type": st.get("type")}, {"kind": "text", "text": text})
                    after_star = kwd == "* " or (after_star and "Conjunction" in kws and kwd == kws["Conjunction"])
    sck = spec["scenarioOutline"][0]
    exk = spec["examples"][0]
    for n in range(1, L + 1):
        for seq in itertools.product(types, repeat=n):
            for nbg in (0, 1) if n > 1 else (0,):
                for outline in (False, True):
                    lines = list(hdr) + [f + ": f"]
                    if nbg:
                        lines += ["  " + bgk + ":"] + ["    " + kws[t] + "b" for t in seq[:nbg]]
                    lines += ["  " + sck + ": s"] + ["    " + kws[t] + "s" for t in seq[nbg:]]
                    if outline:
                        lines += ["    " + exk + ":", "      | h |", "      | v |", "      | w |", "    " + exk + ":", "      | h |", "      | x |"]
                    if d == "en" and (n + nbg) % 2:
                        lines = lines[1:]            # en: with and without the redundant header
                    text = "\n".join(lines) + "\n"
                    # every third document goes through one matcher/parser reused for the whole dialect sweep
                    if len(seq) % 3 == 0:
                        o = observe.parse_observed(text, parser=shared[0], matcher=shared[1], idgen=shared[2])
                        M.count("documents_parsed_on_reused_matcher")
                    else:
                        o = observe.parse_observed(text)
                    M.case(h64(text))
                    if o.status != "ok":
                        M.violation("C10.rejected", {"what": "keyword-sequence document rejected", "errors": o.err_messages()[:2]}, {"kind": "text", "text": text})
                        continue
                    M.count("documents_parsed")
                    k = int(o.idgen.get_next_id())
                    got = pc.compare(o.ast, "u", k, ID, M, {"kind": "text", "text": text})
                    if got:
                        # the statement's reading of each line: first listed keyword that prefixes it
                        # (e.g. ht: 'Le ' (when) prefixes 'Le sa a ' (then))
                        read = [dialects.expected_step(spec, kws[t] + ("b" if n_ < nbg else "s"))[1] for n_, t in enumerate(seq)]
                        want = expected(read)
                        M.count("sequences_checked")
                        have = next(([s.get("type") for s in p["steps"]] for p in got if [s.get("type") for s in p["steps"]] != want), want)
                        if have != want:
                            M.violation("C10.types", {"what": "step types differ from the statement's rule", "dialect": d, "got": have, "want": want},
                                        {"kind": "text", "text": text}, mechanism=pc.D2 if None in have else None)
    M.hist("dialects", d)


def replay(case, M):
    if case["kind"] == "pool":
        run_shard({"family": "dialects", "dialects": case["dialects"], "L": 1, "seed": 0}, M)
    elif case["kind"] == "shard":
        run_shard(case["spec"], M)
    elif case["kind"] == "seq":
        check_seq(case["seq"], case["i"], case["j"], M)
    else:
        o = observe.parse_observed(case["text"])
        if o.status == "ok":
            pc.compare(o.ast, "u", int(o.idgen.get_next_id()), ID, M, case)


def finish(M, tier):
    return {"exhaustive": True, "exhaustive_subspace": "keyword-type sequences up to length %d x all background splits x plain/outline" % (5 if tier == "quick" else 7),
            "dialects_covered": len(M.hists.get("dialects", {}))}
