"""C12 — table cells are split and unescaped as documented; tables are rectangular."""
from __future__ import annotations

import itertools

from .. import observe, refcells
from ..common import h64, short
from .base import rng, shards, apply_parse_monitors

from gherkin.gherkin_line import GherkinLine

ID = "C12"
LEVEL = "exploration"
CLASSES = ["|", "\\", "n", " ", "x"]
RULE = ("(a) exhaustive: rows '|'+w for every w over the five character classes the splitter distinguishes (pipe, backslash, "
        "'n', blank, other) with |w| <= L (quick 7, thorough 10) through the real GherkinLine.table_cells (values and columns) "
        "against the reference splitter R6; for |w| <= L' (quick 4, thorough 6) also through a full parse as a data table row and "
        "as an examples header; (b) sampled Unicode rows (tabs, NBSP, U+3000, U+0085, escapes next to wide characters, leading "
        "indentation); (c) round trip: every cell text over {|,\\,n,x,LF,blank-inside} up to length 5 and sampled Unicode text, "
        "written with the three escapes, is read back unchanged; (d) tables of 1..6 rows whose cell counts are drawn so that the "
        "first deviating row is known, as data table and as examples table (header = row 0): accepted iff rectangular, else exactly "
        "one error at the first deviating row.  Distinct = the row string / table shape.")
ASSUMPTIONS = ["R6 implements the wording of README 'Table cell escaping' and of the property: cells are the texts between "
               "consecutive unescaped pipes; \\n, \\|, \\\\ are the only escapes; blanks but not line feeds are trimmed",
               "blank = str.isspace() and not LF (the same notion the code under test uses for trimming)"]
DECIDING = ["rows_line_level", "rows_full_parse", "round_trips", "tables_checked", "sentinel_cells"]


def plan(tier, seed):
    q = tier == "quick"
    L = 7 if q else 10
    Lp = 4 if q else 6
    specs = []
    # shard the exhaustive enumeration by the first two characters
    for a in CLASSES:
        for b in CLASSES:
            specs.append({"family": "rows", "prefix": a + b, "L": L, "Lp": Lp, "seed": seed, "n": 1})
    specs += shards("unicode", 6000 if q else 300000, 1000 if q else 10000, seed)
    specs += shards("roundtrip", 1, 1, seed, L=4 if q else 5)
    specs += shards("roundtrip_unicode", 4000 if q else 200000, 1000 if q else 10000, seed)
    specs += shards("tables", 3000 if q else 100000, 500 if q else 5000, seed)
    specs += [{"family": "threads", "seed": seed + k, "n": 1, "rounds": 60 if q else 600} for k in range(2 if q else 8)]
    specs += [{"family": "sentinels", "seed": seed, "n": 1, "part": k, "parts": 4} for k in range(4)]
    return specs


def line_level(row, M, indent=""):
    if not isinstance(getattr(GherkinLine, "table_cells", None), property):
        M.inconc("GherkinLine.table_cells is no longer a property: the line-level enumeration cannot observe the splitter")
        return
    phys = indent + row
    want = refcells.ref_cells(phys)
    M.count("rows_line_level")
    try:
        cells = GherkinLine(phys + "\n", 1).table_cells
        got = [(c["column"], c["text"]) for c in cells]
    except Exception as e:
        M.violation("C12.cells", {"what": "table_cells raised", "row": phys, "error": repr(e)[:120]}, {"kind": "row", "row": phys})
        return
    if got != want:
        M.violation("C12.cells", {"what": "cells (column, value) differ from the documented splitting", "row": phys,
                                  "got": got[:6], "want": want[:6]}, {"kind": "row", "row": phys})
    for _, v in want:
        for pair in ("\\n", "\\|", "\\\\"):
            pass
    M.hist("cells_per_row", len(want))


def full_parse(row, M):
    """The row as a data table of one row and as an examples header (+ identical body row)."""
    want = refcells.ref_cells("      " + row)
    for variant in ("data", "examples"):
        if variant == "data":
            text = "Feature: f\n  Scenario: s\n    Given x\n      %s\n" % row
        else:
            text = "Feature: f\n  Scenario Outline: s\n    Given x\n    Examples:\n      %s\n      %s\n" % (row, row)
        M.count("rows_full_parse")
        o = observe.parse_observed(text)
        case = {"kind": "parse-row", "row": row, "variant": variant, "text": text}
        if o.status != "ok":
            M.violation("C12.parse", {"what": "single-row table rejected", "row": row, "errors": o.err_messages()[:2], "crash": o.tb}, case)
            continue
        sc = o.ast["feature"]["children"][0]["scenario"]
        if variant == "data":
            rows = sc["steps"][0].get("dataTable", {"rows": [{"cells": []}]})["rows"]
        else:
            ex = sc["examples"][0]
            rows = [ex["tableHeader"]] + ex["tableBody"] if "tableHeader" in ex else [{"cells": []}]
        got = [(c["location"]["column"], c["value"]) for c in rows[0]["cells"]]
        if got != want:
            M.violation("C12.parse", {"what": "AST cells differ from the documented splitting", "row": row, "variant": variant,
                                      "got": got[:6], "want": want[:6]}, case)
        apply_parse_monitors(o, M, case, {"G5"}, skip=("G2", "G3", "G3q", "G4", "G13", "G8", "G1"))


def unicode_row(r):
    alpha = ["|", "|", "\\", "\\n", "\\|", "\\\\", "n", " ", "  ", "\t", " ", "　", "\x85", "\x0b", "\x1c", "x", "é",
             "\U0001F600", "漢", "́", "\\x", "\\ ", "<a>", " ", "\r", "\x00", "​"]
    return "|" + "".join(r.choice(alpha) for _ in range(r.randint(0, 14)))


def check_roundtrip(v, M, case):
    """Any cell text without blanks at its ends, written with the three escapes, reads back unchanged."""
    M.count("round_trips")
    row = "| " + refcells.escape(v) + " |" + refcells.escape(v) + "|"
    try:
        cells = GherkinLine("    " + row + "\n", 1).table_cells
        got = [c["text"] for c in cells]
    except Exception as e:
        M.violation("C12.roundtrip", {"what": "table_cells raised", "row": row, "error": repr(e)[:120]}, case)
        return
    if got != [v, v]:
        M.violation("C12.roundtrip", {"what": "escaped cell text is not read back unchanged", "value": v, "row": row, "got": got}, case)


def gen_table(r):
    """rows with cell counts; returns (lines, first deviating row index or None)"""
    n = r.randint(1, 6)
    base = r.choice([0, 1, 1, 2, 2, 3, 4])      # 0: a lone '|' or a row whose closing pipe is missing has no cells at all
    counts = [base] * n
    dev = None
    if r.random() < 0.6 and n > 1:
        dev = r.randint(1, n - 1)
        counts[dev] = r.choice([c for c in range(0, 6) if c != base])
        for j in range(dev + 1, n):
            if r.random() < 0.4:
                counts[j] = r.randint(0, 5)
    rows = []
    for c in counts:
        ind = " " * r.choice([0, 2, 6, 7])
        cells = [r.choice(["a", "", " b ", "\\|", "\\\\", "\\n", "é"]) for _ in range(c)]
        rows.append(ind + "|" + "".join(" %s |" % x for x in cells) + r.choice(["", " ", " trailing junk"]))
    return rows, dev


_REUSED = {}


def run_threads(spec, M):
    """Several threads, each with Parser objects of its own, parse documents with tables at the same time (1 us switch
    interval): cells, counts and errors are what each document gives alone."""
    import sys
    import threading
    r = rng(spec["seed"], ID, "threads")
    texts = []
    for k in range(12):
        rows, dev = gen_table(r)
        wide = "    | " + " | ".join("cell %d %s" % (j, "x" * r.randint(0, 30)) for j in range(r.randint(3, 12))) + " |"
        texts.append("Feature: f\n  Scenario: s\n    Given x\n" + "\n".join("    " + x.strip() for x in rows) + "\n    Then y\n" + "\n".join([wide] * r.randint(1, 6)) + "\n")

    def outcome(text):
        from gherkin.parser import Parser
        from gherkin.errors import ParserError, CompositeParserException
        try:
            return ("ok", Parser().parse(text))
        except CompositeParserException as e:
            return ("err", [str(x) for x in e.errors])
        except ParserError as e:
            return ("err", [str(e)])
        except Exception as e:
            return ("crash", repr(e)[:160])
    solo = [outcome(t) for t in texts]
    results, old = {}, sys.getswitchinterval()

    def work(t):
        for n in range(spec["rounds"]):
            j = (t * 5 + n) % len(texts)
            results[(t, n)] = (j, outcome(texts[j]))
    sys.setswitchinterval(1e-6)
    try:
        ths = [threading.Thread(target=work, args=(t,)) for t in range(6)]
        for t in ths:
            t.start()
        for t in ths:
            t.join()
    finally:
        sys.setswitchinterval(old)
    M.count("threaded_table_parses", len(results))
    M.case(h64(["threads", spec["seed"]]))
    bad = [(key, j) for key, (j, res) in results.items() if res != solo[j]]
    if bad:
        (t, n), j = bad[0]
        M.violation("C12.threads", {"what": "a document with tables parsed while other threads parse other documents (own Parser objects) gives another result than alone",
                                    "deviating": len(bad), "of": len(results), "alone": short(solo[j], 200), "threaded": short(results[(t, n)][1], 200)},
                    {"kind": "threads", "seed": spec["seed"], "rounds": spec["rounds"]})


def check_table(r, M, idx):
    rows, dev = gen_table(r)
    variant = r.choice(["data", "examples", "data-in-background", "examples-second"])
    filler = r.random() < 0.3
    body = []
    for k, row in enumerate(rows):
        body.append(row)
        if filler and k < len(rows) - 1 and r.random() < 0.4:
            body.append(r.choice(["", "   # comment between rows"]))
    if variant == "data":
        head = ["Feature: f", "  Scenario: s", "    Given x"]
        tail = ["    Then y"]
    elif variant == "data-in-background":
        head = ["Feature: f", "  Background:", "    Given x"]
        tail = ["  Scenario: s", "    Given y"]
    elif variant == "examples":
        head = ["Feature: f", "  Scenario Outline: s", "    Given x", "    Examples:"]
        tail = ["  Scenario: t"]
    else:
        head = ["Feature: f", "  Scenario Outline: s", "    Given x", "    Examples:", "      | a |", "    @t", "    Examples: second"]
        tail = []
    lines = head + body + tail
    text = "\n".join(lines) + "\n"
    M.case(h64(text))
    M.count("tables_checked")
    M.hist("tables.first_deviation", "rectangular" if dev is None else "row %d" % dev)
    case = {"kind": "table", "text": text, "dev": dev}
    o = observe.parse_observed(text)
    if dev is None:
        if o.status != "ok":
            M.violation("C12.table", {"what": "rectangular table rejected", "errors": o.err_messages()[:2], "crash": o.tb}, case)
        return
    row_line = len(head) + body.index(rows[dev]) + 1 if body.count(rows[dev]) == 1 else None
    if row_line is None:
        k = -1
        cnt = 0
        for j, b in enumerate(body):
            if b in rows and b is not None:
                pass
        # locate by position: dev-th row among non-filler lines
        seen = -1
        for j, b in enumerate(body):
            if b == "" or b.lstrip().startswith("#"):
                continue
            seen += 1
            if seen == dev:
                row_line = len(head) + j + 1
                break
    col = len(rows[dev]) - len(rows[dev].lstrip()) + 1
    want = "(%d:%d): inconsistent cell count within the table" % (row_line, col)
    if o.status == "ok":
        M.violation("C12.table", {"what": "ragged table accepted", "first_deviating_row_line": row_line}, case)
    elif o.err_messages() != [want]:
        M.violation("C12.table", {"what": "ragged table not reported exactly once at its first deviating row",
                                  "got": o.err_messages()[:3], "want": want}, case)
    # the same ragged table on a Parser object that has just rejected it (or another ragged table) once already
    from gherkin.parser import Parser as _P
    if "p" not in _REUSED:
        _REUSED["p"] = _P()
    for again in range(2):
        o3 = observe.parse_observed(text, parser=_REUSED["p"])
        M.count("ragged_tables_on_reused_parser")
        if o3.err_messages() != [want]:
            M.violation("C12.table", {"what": "ragged table not reported (exactly once, at its first deviating row) by a Parser object that has rejected ragged tables before",
                                      "attempt": again + 1, "got": o3.err_messages()[:3], "status": o3.status, "want": want}, case)
            break
    # ... and through the stream whatever is switched off for printing
    opts = [(a, b, c) for a in (True, False) for b in (True, False) for c in (True, False)][idx % 8]
    st4, envs4, opened4, _ = observe.enum_observed(text, uri="t.feature", options=opts)
    M.count("ragged_tables_through_stream")
    if st4 != "ok" or [e.get("parseError", {}).get("message") for e in envs4] != [want]:
        M.violation("C12.table", {"what": "ragged table: the stream (print options %s) does not yield exactly the one parseError" % (opts,),
                                  "got": short(envs4, 200)}, case)
    # stop mode raises the same error
    o2 = observe.parse_observed(text, stop=True)
    if o2.err_messages() != [want]:
        M.violation("C12.table", {"what": "stop-at-first-error mode reports a different error for the ragged table",
                                  "got": o2.err_messages()[:2], "want": want}, case)


def run_shard(spec, M):
    fam = spec["family"]
    if fam == "rows":
        pre, L, Lp = spec["prefix"], spec["L"], spec["Lp"]
        if pre == "||":
            for w in [""] + CLASSES:
                M.case("|" + w)
                line_level("|" + w, M)
                full_parse("|" + w, M)
        for n in range(2, L + 1):
            for rest in itertools.product(CLASSES, repeat=n - 2):
                w = pre + "".join(rest)
                row = "|" + w
                M.case(row)
                line_level(row, M, indent="  " if n % 2 else "")
                if n <= Lp:
                    full_parse(row, M)
        M.sample({"rows_like": "|" + pre + "...", "L": L})
    elif fam == "unicode":
        for i in range(spec["start"], spec["start"] + spec["n"]):
            r = rng(spec["seed"], ID, "unicode", i)
            row = unicode_row(r)
            M.case(h64(row))
            line_level(row, M, indent=r.choice(["", " ", "\t", "  　"]))
            if i % 10 == 0 and "\r" not in row and "\x00" not in row:
                full_parse(row, M)
            if i % 1999 == 0:
                M.sample({"row": row})
    elif fam == "roundtrip":
        alpha = ["|", "\\", "n", "x", "\n", " "]
        for n in range(0, spec["L"] + 1):
            for w in itertools.product(alpha, repeat=n):
                v = "".join(w)
                if v and (v[0] == " " or v[-1] == " "):
                    continue
                M.case(h64("rt" + v))
                check_roundtrip(v, M, {"kind": "roundtrip", "value": v})
    elif fam == "roundtrip_unicode":
        alpha = ["|", "\\", "n", "x", "\n", " ", "\t", "é", "\U0001F600", "\\n", "<", ">", " ", "\x85", "\r", "\x0b"]
        for i in range(spec["start"], spec["start"] + spec["n"]):
            r = rng(spec["seed"], ID, "rtu", i)
            v = "".join(r.choice(alpha) for _ in range(r.randint(0, 10)))
            while v and refcells.is_blank(v[0]):
                v = v[1:]
            while v and refcells.is_blank(v[-1]):
                v = v[:-1]
            M.case(h64("rtu" + v))
            check_roundtrip(v, M, {"kind": "roundtrip", "value": v})
    elif fam == "sentinels":
        # characters an implementation might borrow as an internal stand-in while unescaping (controls, the private use area,
        # non-characters, specials): each one in a cell together with all three escapes must be read back unchanged
        cps = list(range(0x00, 0x21)) + list(range(0x7f, 0xa1)) + list(range(0xe000, 0xf900)) + list(range(0xfdd0, 0xfdf0)) + \
            list(range(0xfff0, 0x10000)) + [0x1fffe, 0x1ffff, 0xf0000, 0xffffd, 0x100000, 0x10fffd, 0x2028, 0x2029, 0x200b, 0xfeff]
        for k, cp in enumerate(cps):
            if k % spec["parts"] != spec["part"] or cp in (0x0a, 0x0d):
                continue
            ch = chr(cp)
            for v in ("x" + ch + "|" + ch + "\\" + ch + "\n" + ch + "y", "a" + ch + "\\n" + ch + "b"):
                M.count("sentinel_cells")
                check_roundtrip(v, M, {"kind": "roundtrip", "value": v})
    elif fam == "threads":
        run_threads(spec, M)
    elif fam == "tables":
        for i in range(spec["start"], spec["start"] + spec["n"]):
            check_table(rng(spec["seed"], ID, "tables", i), M, i)


def replay(case, M):
    k = case["kind"]
    if k == "row":
        line_level(case["row"], M)
    elif k == "parse-row":
        full_parse(case["row"], M)
    elif k == "threads":
        run_threads({"seed": case["seed"], "rounds": 600}, M)
    elif k == "roundtrip":
        check_roundtrip(case["value"], M, case)
    else:
        o = observe.parse_observed(case["text"])
        dev = case.get("dev")
        if (dev is None) != (o.status == "ok"):
            M.violation("C12.table", {"what": "replay: acceptance differs from rectangularity", "errors": o.err_messages()[:2]}, case)


def finish(M, tier):
    return {"exhaustive": True, "exhaustive_subspace": "rows '|'+w, w over {pipe, backslash, n, blank, x}, |w| <= %d at GherkinLine level; |w| <= %d through full parses" % (
        (7, 4) if tier == "quick" else (10, 6))}
