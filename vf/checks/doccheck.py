"""Shared machinery of the checks that compare a parse of an R3 document with the
document model it was rendered from (C03 content, C04 locations, C13 doc strings, C18 lines)."""
from __future__ import annotations

from .. import observe, docmodel, refcells, grammar as grammar_mod
from ..common import h64, short
from .base import rng, apply_parse_monitors, cover_transitions

D3 = "D3-description-trailing-whitespace-only-lines-kept"


def strip(o, ids=True, locations=False):
    if isinstance(o, dict):
        return {k: strip(v, ids, locations) for k, v in o.items()
                if not (ids and k == "id") and not (locations and k == "location")}
    if isinstance(o, list):
        return [strip(x, ids, locations) for x in o]
    return o


def make_doc(seed, family, i, **kw):
    """allow_default=True: every fifth document is written for (and must then be parsed by) a matcher whose default dialect
    is the document's dialect — only check_doc() does that, so only its callers pass the flag."""
    r = rng(seed, "doc", family, i)
    kw = dict(kw)
    if kw.pop("allow_default", False) and "default_dialect" not in kw and "dialect" not in kw and i % 5 == 2:
        # every fifth document is written for a matcher whose DEFAULT dialect is the document's dialect (header optional)
        from .. import dialects as _d
        names = sorted(_d.master())
        kw = dict(kw, dialect=names[r.randrange(len(names))])
        kw["default_dialect"] = kw["dialect"]
    size = kw.get("size") or r.choice(["small", "medium", "medium", "large"] if i % 7 == 0 else ["small", "medium", "medium"])
    rare = kw.get("rare", i % 4 == 0)
    # every sixth document draws names, texts, cells and tag lines from a tiny pool: many identical lines at different places
    dup = kw.get("dup", 0.6 if i % 6 == 5 else 0.0)
    return docmodel.render(r, dialect=kw.get("dialect"), size=size, rare=rare, ascii_only=kw.get("ascii_only", False),
                           special=kw.get("special", 0.0), deep=kw.get("deep", False), default_dialect=kw.get("default_dialect", "en"), dup=dup)


def generator_sound(R):
    """The intended line kinds are the grammar's own reading of the text (R1), else the
    generator is wrong and the case proves nothing."""
    acc, read_as, _ = grammar_mod.grammar_reading(observe.grammar(), R.kinds)
    return acc and read_as == R.kinds


def only_trailing_ws_lines_differ(intended, got):
    """True iff `got` is `intended` plus trailing whitespace-only lines (defect D3)."""
    if not isinstance(intended, str) or not isinstance(got, str):
        return False
    t = got.split("\n")
    while t and not t[-1].strip():
        t.pop()
    return "\n".join(t) == intended and got != intended


def nothing_invented(ast, text):
    """G9: every text carried by the AST occurs in the source."""
    out = []
    lines = set(l.rstrip("\r") for l in observe.physical_lines(text))
    for kind, node in observe.iter_nodes(ast):
        if kind == "comment":
            if node["text"] not in lines:
                out.append(("comment", node["text"]))
        elif kind in ("feature", "rule", "background", "scenario", "examples"):
            if node["keyword"] not in text or node["name"] not in text:
                out.append((kind, node["keyword"], node["name"]))
            for dl in node["description"].split("\n") if node["description"] else []:
                if dl not in lines and dl.rstrip("\r") not in lines:
                    out.append((kind + ".description", dl))
        elif kind == "step":
            if node["keyword"] not in text or node["text"] not in text:
                out.append((kind, node["keyword"], node["text"]))
        elif kind == "tag":
            if node["name"] not in text:
                out.append((kind, node["name"]))
        elif kind == "cell":
            v = node["value"]
            if v and refcells.escape(v) not in text and v not in text:
                out.append((kind, v))
        elif kind == "docString":
            if "mediaType" in node and node["mediaType"] not in text:
                out.append(("mediaType", node["mediaType"]))
            d = node["delimiter"]
            esc = '\\"\\"\\"' if d == '"""' else "\\`\\`\\`"
            for cl in node["content"].split("\n") if node["content"] else []:
                if cl not in text and cl.replace(d, esc) not in text:
                    out.append(("docString.content", cl))
    return out


def count_elements(ast, M):
    for kind, _ in observe.iter_nodes(ast):
        M.count("elements." + kind)


class _OldReused:
    """(superseded by base.ReusedEnv) One Parser + one explicitly passed TokenMatcher reused for all documents of a shard, with
    state-perturbing documents parsed in between (rejected ones, dialect switches, documents that
    end inside an indented doc string): what an earlier parse left behind must not show."""

    def __init__(self, r):
        from gherkin.parser import Parser
        from gherkin.token_matcher import TokenMatcher
        from gherkin.errors import ParserError
        self.r = r
        self.parser = Parser()
        self.matcher = TokenMatcher("en")
        self.err = ParserError

    def perturb(self, M):
        from ..perturb import POOL, NAMES
        if self.r.random() < 0.5:
            name = self.r.choice(NAMES)
            self.parser.stop_at_first_error = self.r.random() < 0.3
            try:
                self.parser.parse(POOL[name], self.matcher)
            except self.err:
                pass
            M.hist("reuse.predecessor", name)


from .base import ReusedEnv as Reused        # noqa: E402  (one Parser/AstBuilder/IdGenerator + explicit TokenMatcher per shard)


def stream_agrees(text, o, M, case, prop):
    """What the stream reports for a source — the gherkinDocument (locations included) or the parseError envelopes — is what
    Parser.parse reports for the same text: the stream layer adds the uri and nothing else."""
    if o.status == "crash":
        return
    st, envs, opened, _ = observe.enum_observed(text, uri="u.feature", options=(False, True, False))
    M.count("stream_vs_parse_compared")
    if st != "ok":
        M.violation(prop + ".stream", {"what": "exception escaped GherkinEvents.enum", **envs}, case, mechanism=observe.f1_from_opened(text, opened))
        return
    if o.status == "ok":
        docs = [e["gherkinDocument"] for e in envs if "gherkinDocument" in e]
        got = strip({k: v for k, v in docs[0].items() if k != "uri"}, ids=True) if len(docs) == 1 else None
        want = strip(o.ast, ids=True)
        if got != want:
            M.violation(prop + ".stream", {"what": "the stream's gherkinDocument (locations included) differs from what Parser.parse returns for the same text",
                                           "first_differences": [(p, short(a, 100), short(b, 100)) for p, a, b in (docmodel.diff(want, got)[:3] if got is not None else [])],
                                           "envelopes": [next(iter(e)) for e in envs][:5]}, case)
    else:
        got = [(e["parseError"]["source"].get("location"), e["parseError"].get("message")) for e in envs if "parseError" in e]
        want = [(e["location"], e["message"]) for e in o.errors]
        if got != want or len(got) != len(envs):
            M.violation(prop + ".stream", {"what": "the stream's parseError envelopes (locations, messages) differ from the errors Parser.parse raises for the same text",
                                           "stream": short(got, 200), "parse": short(want, 200), "envelopes": [next(iter(e)) for e in envs][:5]}, case)


def _poison(o):
    if isinstance(o, dict):
        for v in list(o.values()):
            _poison(v)
    elif isinstance(o, list):
        for v in list(o):
            _poison(v)
        o.append({"location": {"line": 0, "column": 0}, "keyword": "POISON ", "keywordType": "Unknown", "text": "appended by the caller", "name": "@poison",
                  "id": "poison", "cells": [], "value": "poison"})


_SubBuilderClass = []


def _SubBuilder(idg):
    if not _SubBuilderClass:
        from gherkin.ast_builder import AstBuilder

        class CallerBuilder(AstBuilder):
            """What a user of the library may write: an AstBuilder subclass that adds nothing observable."""
            def build(self, token):
                self.seen = getattr(self, "seen", 0) + 1
                return super().build(token)
        _SubBuilderClass.append(CallerBuilder)
    return _SubBuilderClass[0](idg)


def check_doc(R, M, case, prop, reused=None):
    """Parse the rendered document with the real parser under the probes and compare with
    the intent.  prop in {'C03','C04'} selects what is deciding."""
    M.case(h64(R.text), nontrivial=bool(R.lines))
    if not generator_sound(R):
        M.inconc("generator produced a document whose intended reading is not the grammar's reading: %s" % short(R.text, 200))
        return None
    dd = getattr(R, "default_dialect", "en")
    if dd != "en":
        # read by a matcher configured with the document's dialect as its default
        from gherkin.token_matcher import TokenMatcher
        M.count("parses_with_non_en_default_matcher")
        o = observe.parse_observed(R.text, matcher=TokenMatcher(dd))
    elif reused is not None:
        o = reused.parse(R.text, M)
    else:
        # every fourth document is handed to the parser as a TokenScanner object instead of a string
        as_scanner = (M.cases % 4 == 0)
        if as_scanner:
            M.count("parses_from_scanner_object")
        # ... and every fifth one with stop_at_first_error switched on (a well-formed document has no first error)
        stop = (M.cases % 5 == 0)
        if stop:
            M.count("parses_in_stop_mode")
        builder = idg = None
        if M.cases % 7 == 0:
            # ... and every seventh one by a Parser constructed with a (trivial) subclass of AstBuilder and a caller's generator
            from gherkin.stream.id_generator import IdGenerator
            idg = IdGenerator()
            builder = _SubBuilder(idg)
            M.count("parses_with_astbuilder_subclass")
        # ... and every sixth one from a file, through TokenScanner(path), as the command-line scripts read their input
        as_file = (M.cases % 6 == 1) and observe.file_loadable(R.text)
        if as_file:
            M.count("parses_from_files")
        o = observe.parse_observed(R.text, stop=stop, as_scanner=as_scanner, builder=builder, idgen=idg, as_file=as_file)
    deciding = {"C03": {"G4"}, "C04": {"G8"}}[prop]
    apply_parse_monitors(o, M, case, deciding, skip=() if prop == "C04" else ("G5",))
    cover_transitions(o, M)
    M.hist("dialects", R.dialect)
    for k, v in R.stats.items():
        M.count("model." + k, v)
    if o.status != "ok":
        M.violation(prop + ".rejected", {"what": "well-formed document rejected", "status": o.status,
                                         "errors": [e["message"] for e in o.errors][:3], "crash": o.tb},
                    case, mechanism=observe.f1_mechanism(o))
        return o
    try:
        count_elements(o.ast, M)
    except Exception as e:
        # the returned document does not even have the shape of a Gherkin document (a child without its fields, ...)
        M.violation(prop + ".ast", {"what": "the document returned for a well-formed text is malformed", "error": repr(e)[:200],
                                    "first_differences": [(p, short(a, 100), short(b, 100)) for p, a, b in docmodel.diff(strip(R.ast, ids=True, locations=True), strip(o.ast, ids=True, locations=True))[:3]]}, case)
        return o
    if prop == "C03":
        got = strip(o.ast, ids=True, locations=True)
        want = strip(R.ast, ids=True, locations=True)
        df = docmodel.diff(want, got)
        M.count("C03.ast_comparisons")
        if df:
            d3 = all(p.endswith("/description") and only_trailing_ws_lines_differ(a, b) for p, a, b in df)
            M.violation("C03.ast", {"what": "AST differs from the document the text was rendered from",
                                    "first_differences": [(p, short(a, 120), short(b, 120)) for p, a, b in df[:3]],
                                    "n_differences": len(df)}, case, mechanism=D3 if d3 else None)
        if M.cases % 3 == 0 and dd == "en":
            # the AST as a consumer of the stream sees it: all envelopes collected first (the compiler has run on the very
            # document object by then), then the gherkinDocument envelope compared with the document the text was made from
            st, envs, opened, _ = observe.enum_observed(R.text, uri="u.feature")
            M.count("C03.stream_ast_comparisons")
            if st == "ok":
                docs = [e["gherkinDocument"] for e in envs if "gherkinDocument" in e]
                if len(docs) == 1:
                    got2 = strip({k: v for k, v in docs[0].items() if k != "uri"}, ids=True, locations=True)
                    df2 = docmodel.diff(want, got2)
                    if df2 and not df:
                        M.violation("C03.ast", {"what": "the gherkinDocument envelope, read after the whole stream of the source was collected, differs from the document the text was rendered from (the parse result itself did not)",
                                                "first_differences": [(p, short(a, 120), short(b, 120)) for p, a, b in df2[:3]]}, case)
        inv = nothing_invented(o.ast, R.text)
        M.count("G9.evaluated")
        if reused is None:
            # the caller owns what parse() returned: whatever he does to it (here: something appended to every list) must
            # never show up in a document returned later — the comparisons of the following documents would report it
            _poison(o.ast)
            M.count("returned_documents_poisoned")
        if inv:
            M.violation("G9", {"what": "AST carries text that does not occur in the source", "items": inv[:3]}, case)
    elif prop == "C04":
        got = strip(o.ast, ids=True)
        df = docmodel.diff(R.ast, got)
        locdf = [d for d in df if "/location" in d[0]]
        M.count("C04.locations_compared", sum(1 for _ in observe.iter_nodes(o.ast)))
        if locdf:
            M.violation("C04.location", {"what": "reported location differs from the position the renderer wrote the element at",
                                         "first_differences": [(p, a, b) for p, a, b in locdf[:4]]}, case)
        if M.cases % 3 == 1 and dd == "en":          # (the stream reads with the default English matcher)
            stream_agrees(R.text, o, M, case, prop)
        # how hard was this document for column arithmetic?
        for l in R.lines:
            if "\t" in l:
                M.count("lines.with_tab")
            if any(ord(c) > 0xFFFF for c in l):
                M.count("lines.with_non_bmp")
            if "\\" in l and "|" in l:
                M.count("lines.with_escaped_cells")
    return o
