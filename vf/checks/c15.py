"""C15 — no hidden state: results are independent of earlier and concurrent parses."""
from __future__ import annotations

import copy
import hashlib
import itertools
import json
import os
import sys
import threading
import time

from .. import observe, probe, noisy, docmodel
from ..common import h64, short, PY_ROOT
from ..perturb import POOL, NAMES
from .base import rng, shards
from .c11 import shift as _shift_up

from gherkin.parser import Parser
from gherkin.ast_builder import AstBuilder
from gherkin.token_matcher import TokenMatcher
from gherkin.token_matcher_markdown import GherkinInMarkdownTokenMatcher
from gherkin.token_scanner import TokenScanner
from gherkin.token import Token
from gherkin.gherkin_line import GherkinLine
from gherkin.pickles.compiler import Compiler
from gherkin.stream.id_generator import IdGenerator
from gherkin.errors import ParserError, CompositeParserException
from gherkin import dialect as dialect_mod

ID = "C15"
LEVEL = "exploration"
TECHNIQUE = ("runtime monitoring: reuse-vs-fresh histories with a fresh-state monitor hooked at every parse start; controlled "
             "scheduler gating every token fetch (Parser.read_token) over enumerated interleavings; free-running threads with sys.monitoring "
             "yield injection")
RULE = ("(a) histories: every ordered pair and triple over a pool of %d state-perturbing documents (good en; fr/no headers, CRLF; "
        "ends inside an indented \"\"\" / ``` doc string; 15 errors (cap); unknown language; ragged table; bad tag in a look-ahead run; "
        "tag run ending at EOF; comments everywhere; outline with every argument kind; empty; garbage; indented descriptions; ...) x "
        "matcher configuration (none passed, explicit 'en', explicit 'fr') x stop-at-first-error pattern, fed to ONE reused "
        "Parser/TokenMatcher/Compiler/IdGenerator: the result of the last document must equal the result on fresh instances with ids "
        "shifted by the counter offset; plus sampled longer histories; the fresh-state monitor G13 is evaluated at every parse start "
        "(matcher attributes == fresh matcher's, builder stack/comments, empty queue and error list); compile leaves its argument "
        "unchanged and is deterministic; DIALECTS unchanged at exit; Markdown matcher: reset() restores a fresh state (line level). "
        "(b) schedules: worker threads block in a gate (at every token fetch) until the scheduler gives them the turn; ALL "
        "interleavings of 2 parses (<= 7 reads each) and sampled/all interleavings of 3 parses, random interleavings of larger "
        "documents, and free-running threads with 1 microsecond switch interval and LINE-event sleep(0) injection: every parse's result "
        "equals its solo result.  Distinct = the history / the schedule."
        " Also: the scheduler gates at Parser.read_token (every token fetch, also from the look-ahead queue); a fourth history configuration hands sources over as TokenScanner objects; the pool contains parses abandoned while look-ahead tokens are buffered; every document and pickle list returned earlier in a history is re-checked for later modification (G15); two-way interleaving sets above the tier's limit are sampled uniformly instead of enumerated (counted separately)." % len(POOL))
ASSUMPTIONS = ["each concurrent parse uses its own Parser/TokenMatcher/AstBuilder instances (the library's classes are not documented as thread-safe objects; the property is about parsers working on different documents)",
               "results are compared after subtracting the id offset of the shared generator"]
DECIDING = ["dialect_pairs_checked", "compiles_on_reused_compiler", "hashseed_documents_compared", "histories", "G13.evaluated", "schedules", "compile_purity_checks", "free_running_parses"]
CONFIGS = ("none", "en", "fr", "en+scanner")


def shift_down(o, off):
    return _shift_up(o, -off)


def one_run(parser, matcher, compiler, idg, src, stop, M=None, check_g13=True, case=None, hold=None):
    parser.stop_at_first_error = stop
    # ids already drawn from this generator = the offset to subtract (counted by the get_next_id wrapper;
    # no private attribute of the generator is read)
    off = getattr(idg, "_vf_drawn", 0)
    with probe.observing(ids=True) as obs:
        try:
            arg = TokenScanner(src) if getattr(parser, "_vf_as_scanner", False) else src
            d = parser.parse(arg, matcher) if matcher is not None else parser.parse(arg)
            if hold is not None:
                hold.append((d, copy.deepcopy(d)))
            d = dict(d)
            d["uri"] = "u"
            before = copy.deepcopy(d)
            p = compiler.compile(d)
            if hold is not None:
                hold.append((p, copy.deepcopy(p)))
            if M is not None:
                M.count("compile_purity_checks")
                if d != before:
                    M.violation("G10", {"what": "Compiler.compile modified the document it was given"}, case)
            res = ("ok", shift_down(d, off), shift_down(p, off))
        except CompositeParserException as e:
            res = ("err", [(dict(x.location), str(x), type(x).__name__) for x in e.errors])
        except ParserError as e:
            res = ("stop", (dict(e.location), str(e), type(e).__name__))
        except Exception as e:
            # not a parser error: recorded as the result (it then differs from the fresh/solo result and is reported)
            res = ("crash", type(e).__name__, repr(e)[:160], observe._origin(e))
    idg._vf_drawn = off + sum(1 for d in obs.ids if d[2] == id(idg))      # harness-owned counter kept on the generator
    if M is not None and check_g13 and obs.logs:
        log = obs.logs[-1]
        o = observe.Obs()
        o.log = log
        M.count("G13.evaluated")
        for mid, detail in observe.g13_fresh_state(o, matcher):
            M.violation(mid, detail, case)
    return res


def fresh(kind):
    """kind: matcher configuration; a '+scanner' suffix hands every source over as a TokenScanner object"""
    idg = IdGenerator()
    base = kind.split("+")[0]
    m = {"en": lambda: TokenMatcher("en"), "fr": lambda: TokenMatcher("fr"), "none": lambda: None}[base]()
    p = Parser(AstBuilder(idg))
    if kind.endswith("+scanner"):
        p._vf_as_scanner = True         # harness-owned flag read by one_run
    return p, m, Compiler(idg), idg


_solo = {}


def solo(kind, name, stop):
    key = (kind, name, stop)
    if key not in _solo:
        _solo[key] = one_run(*fresh(kind), POOL[name], stop)
    return _solo[key]


def check_history(kind, hist, stops, M):
    case = {"kind": "history", "config": kind, "history": list(hist), "stops": list(stops)}
    M.case(h64([kind, hist, stops]))
    M.count("histories")
    M.hist("history_length", len(hist))
    env = fresh(kind)
    r = None
    held = []
    for name, stop in zip(hist, stops):
        r = one_run(*env, POOL[name], stop, M, case=case, hold=held)
    M.count("returned_results_rechecked", len(held))
    for obj, snap in held:
        if obj != snap:
            M.violation("G15", {"what": "a document or pickle list returned earlier in the history was modified by later parses/compiles on the same objects",
                                "config": kind, "history": list(hist)}, case)
            break
    M.cover("predecessor_pairs", "%s>%s" % (hist[-2] if len(hist) > 1 else "-", hist[-1]))
    want = solo(kind, hist[-1], stops[-1])
    if r != want:
        M.violation("C15.history", {"what": "result on reused Parser/TokenMatcher/Compiler/IdGenerator differs from the result on fresh instances",
                                    "config": kind, "history": list(hist), "stops": list(stops), "reused": short(r, 300), "fresh": short(want, 300)}, case)


def dialects_digest():
    return hashlib.sha256(json.dumps(dialect_mod.DIALECTS, sort_keys=True).encode()).hexdigest()


def run_histories(spec, M):
    d0 = dialects_digest()
    kind = spec["config"]
    firsts = spec["firsts"]
    for a in firsts:
        for b in NAMES:
            for stops in ((False, False), (True, True), (True, False), (False, True)):
                check_history(kind, (a, b), stops, M)
            if spec.get("triples"):
                for c in (NAMES if spec["triples"] == "all" else NAMES[:10]):
                    for stops in ((False, False, False), (True, False, True)):
                        check_history(kind, (a, b, c), stops, M)
    r = rng(spec["seed"], ID, "long", kind, firsts[0])
    for _ in range(spec.get("long", 0)):
        n = r.randint(4, 12)
        hist = tuple(r.choice(NAMES) for _ in range(n))
        stops = tuple(r.random() < 0.3 for _ in range(n))
        check_history(kind, hist, stops, M)
    # generated documents after perturbing predecessors
    for i in range(spec.get("generated", 0)):
        rr = rng(spec["seed"], ID, "gen", kind, firsts[0], i)
        R = docmodel.render(rr, size="small")
        pre = [rr.choice(NAMES) for _ in range(rr.randint(1, 3))]
        env = fresh(kind)
        for name in pre:
            one_run(*env, POOL[name], rr.random() < 0.3, M, case={"kind": "gen", "pre": pre, "text": R.text, "config": kind})
        got = one_run(*env, R.text, False, M, case={"kind": "gen", "pre": pre, "text": R.text, "config": kind})
        want = one_run(*fresh(kind), R.text, False)
        M.case(h64([kind, pre, R.text]))
        M.count("histories")
        if got != want:
            M.violation("C15.history", {"what": "generated document after perturbing predecessors differs from a fresh parse", "config": kind,
                                        "predecessors": pre, "reused": short(got, 300), "fresh": short(want, 300)},
                        {"kind": "gen", "pre": pre, "text": R.text, "config": kind})
    # determinism: the same input twice on fresh instances
    for name in NAMES:
        a = one_run(*fresh(kind), POOL[name], False)
        b = one_run(*fresh(kind), POOL[name], False)
        M.count("determinism_checks")
        if a != b:
            M.violation("C15.determinism", {"what": "two runs on the same input differ", "document": name}, {"kind": "history", "config": kind, "history": [name], "stops": [False]})
    M.count("G12.evaluated")
    if dialects_digest() != d0:
        M.violation("G12", {"what": "the module-level dialect table was modified"}, {"kind": "history", "config": kind, "history": firsts, "stops": []})
    M.sample({"config": kind, "history_like": [firsts[0], NAMES[3], NAMES[1]], "pool": NAMES})


def run_markdown(M):
    """Markdown matcher, line level: after any use, reset() gives the state of a fresh instance."""
    lines = ["# Feature: x\n", "## Scenario: y\n", "* Given z\n", "   | a |\n", "`@t`\n", "plain\n", "```\n", "# Fonctionnalité: x\n"]
    for default in ("en", "fr"):
        for seq in itertools.product(range(len(lines)), repeat=3):
            m = GherkinInMarkdownTokenMatcher(default)
            for k in seq:
                t = Token(GherkinLine(lines[k], 1), {"line": 1})
                for meth in ("match_FeatureLine", "match_ScenarioLine", "match_StepLine", "match_TableRow", "match_TagLine", "match_DocStringSeparator"):
                    try:
                        getattr(m, meth)(t)
                    except Exception:
                        pass
            if seq[0] % 2:
                try:
                    m._change_dialect("no")
                except AttributeError:
                    M.count("advisory.private_dialect_switch_unavailable")
            m.reset()
            M.count("markdown_reset_checks")
            M.case(h64(["md", default, seq]))
            a, b = probe.matcher_state(m), probe.matcher_state(GherkinInMarkdownTokenMatcher(default))
            if a != b:
                M.violation("G13.md", {"what": "Markdown matcher state after reset() differs from a fresh instance",
                                       "diff": {k: (a.get(k), b.get(k)) for k in a if a.get(k) != b.get(k)}}, {"kind": "md", "seq": list(seq), "default": default})
                return


# --------------------------------------------------------------------------- schedules

_gate_tl = threading.local()
_gated = False
_orig_read = None


def install_gate():
    global _gated, _orig_read
    if _gated:
        return
    _gated = True
    # A line boundary is where a parser fetches its next token — from the scanner OR from its look-ahead
    # queue — so the scheduling point is Parser.read_token (a gate only at TokenScanner.read would never
    # switch while looked-ahead tokens are queued).
    _orig_read = Parser.read_token

    def gated_read_token(self, context):
        g = getattr(_gate_tl, "gate", None)
        if g is not None:
            g.wait_turn()
        return _orig_read(self, context)
    Parser.read_token = gated_read_token


class Gate:
    def __init__(self, main):
        self.sem = threading.Semaphore(0)
        self.main = main
        self.done = False
        self.result = None
        self.reads = 0

    def wait_turn(self):
        self.reads += 1
        if self.reads > 5000:
            # a parse of these small documents fetches a few dozen tokens: this one is looping
            raise RuntimeError("token-fetch bound exceeded under the scheduler (%d fetches)" % self.reads)
        self.main.release()
        self.sem.acquire()


def _worker(g, src, stop, matcher_kind):
    _gate_tl.gate = g
    g.sem.acquire()
    try:
        g.result = one_run(*fresh(matcher_kind), src, stop)
    except BaseException as e:            # anything else: record, the comparison will flag it
        g.result = ("crash", repr(e))
    g.done = True
    g.main.release()


def run_schedule(jobs, schedule):
    """jobs: [(src, stop, matcher_kind)]; schedule: sequence of job indices, one entry per turn."""
    main = threading.Semaphore(0)
    gates = [Gate(main) for _ in jobs]
    ths = [threading.Thread(target=_worker, args=(g,) + tuple(j)) for g, j in zip(gates, jobs)]
    for t in ths:
        t.start()
    turns = 0
    for i in schedule:
        g = gates[i]
        if g.done:
            continue
        g.sem.release()
        main.acquire()
        turns += 1
    for g in gates:
        while not g.done:
            g.sem.release()
            main.acquire()
            turns += 1
    for t in ths:
        t.join()
    return [g.result for g in gates], turns


def interleaved(texts, r, n_schedules=3, stop=False):
    """Every text parsed (and compiled) by its own Parser — no matcher passed, as most callers do — in its own thread, the
    threads taking turns at token fetches under n random schedules.  -> (solo results, [results per schedule])"""
    install_gate()
    jobs = [(t, stop, "none") for t in texts]
    solo_res = [one_run(*fresh("none"), t, stop) for t in texts]
    turns = [turns_of(t, stop) for t in texts]
    out = []
    for _ in range(n_schedules):
        pool = [i for i, n in enumerate(turns) for _ in range(n + 2)]
        r.shuffle(pool)
        res, _ = run_schedule(jobs, pool)
        out.append(res)
    return solo_res, out


class _CountGate:
    def __init__(self):
        self.n = 0

    def wait_turn(self):
        self.n += 1


def turns_of(src, stop=False, matcher="none"):
    """number of scheduler turns a parse of src needs: one to start + one per token fetch
    (measured by a solo dry run with a counting gate)"""
    install_gate()
    g = _CountGate()
    _gate_tl.gate = g
    try:
        one_run(*fresh(matcher), src, stop)
    finally:
        _gate_tl.gate = None
    return g.n + 1


SCHED_DOCS = {
    "A_doc": 'Feature: a\n  Scenario: s\n    Given x\n    """\n    Feature: no\n    """\n',
    "B_fr": "# language: fr\nFonctionnalité: b\n  @t\n  Scénario: s\n    Soit y\n      | a |\n",
    "C_tags": "Feature: c\n  Scenario: s\n    Given x\n  @t1\n  # c\n  Scenario: t\n",
    "D_err": "Feature: d\n  Scenario: s\n    | a | b |\n    junk\n    Given x\n      | 1 |\n      | 1 | 2 |\n",
    "E_no": "#language:no\nEgenskap: e\n  Bakgrunn:\n    Gitt z\n  Scenario: s\n    Så w\n",
    "F_open": 'Feature: f\n  Scenario: s\n    Given x\n      ```\n      open\n',
    "G_out": "Feature: g\n  Scenario Outline: o <a>\n    And <a>\n    Examples:\n      | a |\n      | 1 |\n",
}


def run_schedules(spec, M):
    install_gate()
    names = spec["docs"]
    jobs = [(SCHED_DOCS[n], spec.get("stop", False), spec.get("matcher", "none")) for n in names]
    solo_res = [one_run(*fresh(j[2]), j[0], j[1]) for j in jobs]
    sizes = [turns_of(*j) for j in jobs]
    total = sum(sizes)
    case0 = {"kind": "schedule", "docs": names, "stop": spec.get("stop", False), "matcher": spec.get("matcher", "none")}

    def check(sch):
        res, turns = run_schedule(jobs, sch)
        M.count("schedules")
        M.count("scheduler_turns", turns)
        M.case(h64([names, list(sch)]))
        switches = sum(1 for a, b in zip(sch, sch[1:]) if a != b)
        M.maximum("max_switches_in_one_schedule", switches)
        if res != solo_res:
            bad = [n for n, a, b in zip(names, res, solo_res) if a != b]
            M.violation("C15.schedule", {"what": "a parse interleaved with other parses differs from its solo result", "documents": names,
                                         "differing": bad, "schedule": list(sch)[:60], "got": short([r for r, s in zip(res, solo_res) if r != s], 300)},
                        dict(case0, schedule=list(sch)))
            return False
        return True

    import math
    limit = spec.get("limit", 4000)
    n_all = math.comb(total, sizes[0]) if len(jobs) == 2 else None
    mode = spec["mode"]
    if mode == "all" and n_all is not None and n_all > limit:
        # too many interleavings for this tier: a uniform random sample of `limit` of them instead
        mode = "sampled"
        M.count("schedule_sets_sampled_instead_of_enumerated")
        r = rng(spec["seed"], ID, "sample", names)
        for _ in range(limit):
            sch = [0] * sizes[0] + [1] * sizes[1]
            r.shuffle(sch)
            if not check(sch):
                break
    elif mode == "all":
        M.count("schedule_sets_enumerated_completely")
        if len(jobs) == 2:
            n0 = sizes[0]
            for comb in itertools.combinations(range(total), n0):
                sch = [1] * total
                for c in comb:
                    sch[c] = 0
                if not check(sch):
                    break
        else:
            # all interleavings of 3 jobs: permutations of the multiset
            def gen(rem, acc):
                if not any(rem):
                    yield list(acc)
                    return
                for k in range(len(rem)):
                    if rem[k]:
                        rem[k] -= 1
                        acc.append(k)
                        yield from gen(rem, acc)
                        acc.pop()
                        rem[k] += 1
            cnt = 0
            n3 = math.factorial(total)
            for z in sizes:
                n3 //= math.factorial(z)
            stride = max(spec.get("stride") or 1, -(-n3 // limit))
            M.notes["three_way"] = {"interleavings_possible": n3, "stride": stride}
            for sch in gen(list(sizes), []):
                cnt += 1
                if cnt % stride != spec.get("offset", 0) % stride:
                    continue
                if not check(sch):
                    break
    else:
        r = rng(spec["seed"], ID, "sched", names)
        for _ in range(spec["count"]):
            sch = []
            rem = list(sizes)
            while any(rem):
                k = r.choice([i for i, x in enumerate(rem) if x])
                burst = r.choice([1, 1, 1, 2, 3])
                for _ in range(min(burst, rem[k])):
                    sch.append(k)
                    rem[k] -= 1
            if not check(sch):
                break
    M.sample({"documents": names, "turns_per_document": sizes, "mode": mode, "interleavings_possible": n_all})


def run_free(spec, M):
    """Free-running threads, 1 microsecond switch interval, sleep(0) injected at LINE events of gherkin/*."""
    r = rng(spec["seed"], ID, "free", spec["shard"])
    docs = [SCHED_DOCS[n] for n in SCHED_DOCS] + [POOL[n] for n in NAMES] + [docmodel.render(r, size="small").text for _ in range(10)]
    solo_res = [one_run(*fresh("none"), d, False) for d in docs]
    old = sys.getswitchinterval()
    sys.setswitchinterval(1e-6)
    mon = sys.monitoring
    TOOL = 3
    prefix = os.path.join(PY_ROOT, "gherkin")
    state = {"events": 0, "switches": 0, "last": None, "yields": 0}
    inj = rng(spec["seed"], "inject", spec["shard"])

    def on_line(code, line):
        if not code.co_filename.startswith(prefix):
            return mon.DISABLE
        state["events"] += 1
        tid = threading.get_ident()
        if state["last"] is not None and state["last"] != tid:
            state["switches"] += 1
        state["last"] = tid
        if state["events"] % 7 == 0:
            state["yields"] += 1
            time.sleep(0)

    try:
        try:
            mon.use_tool_id(TOOL, "vf-yield")
        except ValueError:
            pass
        mon.register_callback(TOOL, mon.events.LINE, on_line)
        mon.set_events(TOOL, mon.events.LINE)
        nthreads, per = spec["threads"], spec["per_thread"]
        results = [[None] * per for _ in range(nthreads)]
        picks = [[r.randrange(len(docs)) for _ in range(per)] for _ in range(nthreads)]
        start = threading.Barrier(nthreads)

        def work(t):
            start.wait()
            for k in range(per):
                try:
                    results[t][k] = one_run(*fresh("none"), docs[picks[t][k]], False)
                except BaseException as e:
                    results[t][k] = ("crash", repr(e))
        ths = [threading.Thread(target=work, args=(t,)) for t in range(nthreads)]
        for t in ths:
            t.start()
        for t in ths:
            t.join()
    finally:
        mon.set_events(TOOL, 0)
        mon.register_callback(TOOL, mon.events.LINE, None)
        mon.free_tool_id(TOOL)
        sys.setswitchinterval(old)
    M.count("free_running_parses", nthreads * per)
    M.count("free_running.line_events", state["events"])
    M.count("free_running.thread_switches_between_gherkin_lines", state["switches"])
    M.count("free_running.yields_injected", state["yields"])
    M.case(h64(["free", spec["shard"], spec["seed"]]))
    for t in range(nthreads):
        for k in range(per):
            if results[t][k] != solo_res[picks[t][k]]:
                M.violation("C15.threads", {"what": "a parse running concurrently with other parses differs from its solo result",
                                            "document": short(docs[picks[t][k]], 200), "got": short(results[t][k], 200)},
                            {"kind": "free", "seed": spec["seed"], "shard": spec["shard"], "threads": nthreads, "per_thread": per})
                return
    if state["switches"] == 0:
        M.inconc("free-running threads: no context switch observed between gherkin lines")


# ------------------------------------------------------------------ one matcher, two dialects

def dialect_doc(d):
    """A document in dialect d (language header) that uses every step keyword and every title keyword the dialect lists."""
    from .. import dialects as dl
    spec = dl.master()[d]
    seen = set()
    steps = []
    for k, _ in dl.step_keywords(spec):
        if k not in seen:
            seen.add(k)
            steps.append(k)
    L = ["# language: " + d, spec["feature"][0] + ": f", "  " + spec["background"][0] + ":"]
    L += ["    " + k + "b" for k in steps]
    for k in spec["scenario"]:
        L += ["  " + k + ": s", "    " + steps[0] + "x", "    " + steps[-1] + "y"]
    for j, k in enumerate(spec["scenarioOutline"]):
        L += ["  @t%d" % j, "  " + k + ": o <a>", "    " + steps[len(steps) // 2] + "<a>"]
        for e in spec["examples"]:
            L += ["    " + e + ":", "      | a |", "      | 1 |"]
    for k in spec["rule"]:
        L += ["  " + k + ": r", "    " + spec["background"][-1] + ":", "      " + steps[0] + "rb", "    " + spec["scenario"][-1] + ": rs", "      " + steps[-1] + "z"]
    return "\n".join(L) + "\n"


def colliding_pairs():
    """Ordered pairs of dialects that list the same keyword string in different roles (where a table keyed by the keyword
    alone, or one that outlives a dialect switch, gives the wrong answer)."""
    from .. import dialects as dl
    roles = {}
    for d, spec in dl.master().items():
        for role in list(dl.TITLE_ROLES) + list(dl.STEP_ROLES):
            for k in spec[role]:
                roles.setdefault(k, {}).setdefault(d, set()).add(role)
    out = set()
    for k, per in roles.items():
        ds = sorted(per)
        for a in ds:
            for b in ds:
                if a != b and per[a] != per[b]:
                    out.add((a, b))
    return sorted(out)


def run_dialect_pairs(spec, M):
    from .. import dialects as dl
    names = sorted(dl.master())
    pairs = colliding_pairs()
    M.notes["colliding_dialect_pairs"] = len(pairs)
    allp = [(a, b) for a in names for b in names if a != b]
    if spec.get("sample"):
        r = rng(spec["seed"], ID, "dialect_pairs")
        extra = r.sample(allp, spec["sample"])
        todo = pairs + [p for p in extra if p not in set(pairs)]
    else:
        todo = allp
    todo = [p for k, p in enumerate(todo) if k % spec["parts"] == spec["part"]]
    docs = {}
    solo_res = {}
    for a, b in todo:
        for d in (a, b):
            if d not in docs:
                docs[d] = dialect_doc(d)
                solo_res[d] = one_run(*fresh("en"), docs[d], False)
        case = {"kind": "dialect_pair", "a": a, "b": b}
        M.case(h64(["dialect_pair", a, b]))
        M.count("dialect_pairs_checked")
        M.hist("dialect_pair.second_outcome", solo_res[b][0])
        env = fresh("en")
        one_run(*env, docs[a], False, M, case=case)
        got = one_run(*env, docs[b], False, M, case=case)
        if got != solo_res[b]:
            M.violation("C15.history", {"what": "document in dialect %s parsed after a document in dialect %s on the same Parser/TokenMatcher differs from a fresh parse" % (b, a),
                                        "reused": short(got, 300), "fresh": short(solo_res[b], 300)}, case)


def _no_pickle_ids(pickles):
    return [{k: ([{kk: vv for kk, vv in st.items() if kk != "id"} for st in v] if k == "steps" else v) for k, v in p.items() if k != "id"} for p in pickles]


def run_compiler_reuse(spec, M):
    """One Compiler kept by the caller, every document parsed by a Parser of its own (node ids start at 0 each time, so the
    ids of different documents coincide): apart from its own pickle ids the Compiler's result equals that of a fresh one."""
    for i in range(spec["start"], spec["start"] + spec["n"]):
        r = rng(spec["seed"], ID, "compiler_reuse", i)
        comp = Compiler(IdGenerator())
        texts = [docmodel.render(r, size=r.choice(["small", "medium"])).text if r.random() < 0.6 else POOL[r.choice(NAMES)] for _ in range(r.randint(3, 7))]
        M.case(h64(["compiler_reuse", texts]))
        for n, text in enumerate(texts):
            try:
                doc = Parser().parse(text)
            except ParserError:
                continue
            except Exception:
                break
            doc = dict(doc, uri="u")
            try:
                got = comp.compile(copy.deepcopy(doc))
                want = Compiler(IdGenerator()).compile(copy.deepcopy(doc))
            except Exception as e:
                M.violation("C15.history", {"what": "compile raised on a reused Compiler", "error": repr(e)[:160]}, {"kind": "compiler_reuse", "texts": texts})
                break
            M.count("compiles_on_reused_compiler")
            if _no_pickle_ids(got) != _no_pickle_ids(want):
                M.violation("C15.history", {"what": "a Compiler that has compiled other documents (parsed by other Parser objects, so with coinciding node ids) gives other pickles than a fresh Compiler",
                                            "position": n, "reused": short(_no_pickle_ids(got), 240), "fresh": short(_no_pickle_ids(want), 240)},
                            {"kind": "compiler_reuse", "texts": texts})
                break


def run_hashseed(spec, M):
    """Determinism across processes: the same documents in fresh interpreters that differ only in PYTHONHASHSEED (set and
    dict-of-str iteration order, id() values): the envelopes must be identical."""
    from .. import dialects as dl
    docs = [("d/%s.feature" % d, dialect_doc(d)) for d in sorted(dl.master())] + [("p/%s.feature" % n, POOL[n]) for n in NAMES]
    # steps whose keyword is the beginning of another listed keyword, with both as text: where an unordered collection of
    # keywords would make the choice depend on the hash seed
    for d in sorted(dl.master()):
        spec_d = dl.master()[d]
        kws = []
        for k, _ in dl.step_keywords(spec_d):
            if k not in kws:
                kws.append(k)
        lines = ["# language: " + d, spec_d["feature"][0] + ": f", "  " + spec_d["scenario"][0] + ": s"]
        for k in kws:
            if any(o != k and o.startswith(k) for o in kws) or any(o != k and k.startswith(o) for o in kws):
                lines.append("    " + k + "x")
        if len(lines) > 3:
            docs.append(("k/%s.feature" % d, "\n".join(lines) + "\n"))
    ref = None
    for hs in spec["seeds"]:
        out = observe.isolated_stream(docs, options=(False, True, True), fresh_per_source=True, hashseed=hs)
        M.count("hashseed_processes")
        if out is None:
            M.inconc("isolated worker failed under PYTHONHASHSEED=%s" % hs)
            return
        M.count("hashseed_documents_compared", len(out))
        M.case(h64(["hashseed", hs]))
        if ref is None:
            ref = (hs, out)
            continue
        for (uri, text), a, b in zip(docs, ref[1], out):
            if a != b:
                M.violation("C15.determinism", {"what": "the same document gives different envelopes in two fresh interpreters that differ only in PYTHONHASHSEED",
                                                "uri": uri, "seeds": [ref[0], hs], "first": short(a, 200), "second": short(b, 200)},
                            {"kind": "hashseed", "seeds": [ref[0], hs]})
                return


def plan(tier, seed):
    q = tier == "quick"
    specs = []
    chunk = 4
    for kind in CONFIGS:
        for s in range(0, len(NAMES), chunk):
            specs.append({"family": "histories", "config": kind, "firsts": NAMES[s:s + chunk], "triples": ("some" if q else "all"),
                          "long": 40 if q else 1500, "generated": 30 if q else 800, "seed": seed, "n": 1})
    specs.append({"family": "markdown", "seed": seed, "n": 1})
    specs.append({"family": "w0", "seed": seed, "n": 1})
    specs += shards("compiler_reuse", 120 if q else 6000, 40 if q else 500, seed)
    specs.append({"family": "hashseed", "seeds": ["0", "1", "2", "77", "4242"] if q else ["0", "1", "2", "3", "5", "8", "13", "77", "4242", "99991"], "seed": seed, "n": 1})
    for part in range(8):
        specs.append({"family": "dialect_pairs", "part": part, "parts": 8, "sample": 800 if q else None, "seed": seed, "n": 1})
    small = ["a5", "b5", "c5", "d5", "e5", "a4", "b4", "c4", "d4", "e4"]
    pairs = [("a4", "b4"), ("c4", "e4"), ("d4", "b4"), ("a4", "c4"), ("e4", "c4"), ("c4", "b4")]
    if not q:
        pairs += [("a5", "b5"), ("c5", "e5"), ("d5", "b5"), ("a5", "c5"), ("e5", "d5")]
        pairs += [(a, b) for a, b in itertools.combinations([k for k in SCHED_DOCS if k not in small and len(k) > 1], 2)]
    for a, b in pairs:
        specs.append({"family": "schedules", "docs": [a, b], "mode": "all", "seed": seed, "n": 1, "limit": 3500 if q else 200000})
    specs.append({"family": "schedules", "docs": ["a4", "c4"], "mode": "all", "stop": True, "matcher": "en", "seed": seed, "n": 1, "limit": 3500 if q else 200000})
    specs.append({"family": "schedules", "docs": ["b4", "e4"], "mode": "all", "stop": False, "matcher": "fr", "seed": seed, "n": 1, "limit": 3500 if q else 200000})
    # three concurrent parses: 2 lines each (4 turns) -> 34 650 interleavings; quick takes every 10th
    for off in range(1 if q else 10):
        specs.append({"family": "schedules", "docs": ["x", "y", "z"], "mode": "all", "stride": 10, "offset": off, "seed": seed, "n": 1,
                      "limit": 3500 if q else 80000})
    for k in range(4 if q else 32):
        specs.append({"family": "schedules", "docs": ["A_doc", "B_fr", "C_tags", "D_err"][: 3 + k % 2], "mode": "random", "count": 120 if q else 2000, "seed": seed + k, "n": 1})
    for k in range(4 if q else 32):
        specs.append({"family": "free", "threads": 8, "per_thread": 25 if q else 200, "seed": seed, "shard": k, "n": 1})
    return specs


SCHED_DOCS.update({
    # 2-line documents for three-way interleavings (4 turns each)
    "x": "Feature: x\n  @t\n", "y": "#language: fr\nFonctionnalité: y\n", "z": 'Feature: z\n"""\n',
    # 4-line documents: complete two-way enumeration in the quick tier (6-7 turns each incl. re-fetched look-ahead tokens)
    "a4": 'Feature: a\n  Scenario: s\n    Given x\n    """\n',
    "b4": "# language: fr\nFonctionnalité: b\n  Scénario: s\n    Soit y\n",
    "c4": "Feature: c\n  Scenario: s\n  @t\n  Scenario: t\n",
    "d4": "Feature: d\n    | a |\n  Scenario: s\n    Given x\n",
    "e4": "#language:no\nEgenskap: e\n  @t\n  # c\n",
    # 5-line documents for complete two-way enumeration (7 turns each -> 3432 interleavings)
    "a5": 'Feature: a\n  Scenario: s\n    Given x\n    """\n    Feature: no\n',
    "b5": "# language: fr\nFonctionnalité: b\n  @t\n  Scénario: s\n    Soit y\n",
    "c5": "Feature: c\n  Scenario: s\n  @t1\n  # c\n  Scenario: t\n",
    "d5": "Feature: d\n  Scenario: s\n    | a |\n    Given x\n      | 1 | 2 |\n",
    "e5": "#language:no\nEgenskap: e\n  Bakgrunn:\n    Gitt z\n      ```\n",
})


def run_shard(spec, M):
    f = spec["family"]
    if f == "histories":
        run_histories(spec, M)
    elif f == "markdown":
        run_markdown(M)
    elif f == "w0":
        from .base import run_repo_tests_under_monitors
        run_repo_tests_under_monitors(M, {"G13"})
    elif f == "schedules":
        run_schedules(spec, M)
    elif f == "dialect_pairs":
        run_dialect_pairs(spec, M)
    elif f == "hashseed":
        run_hashseed(spec, M)
    elif f == "compiler_reuse":
        run_compiler_reuse(spec, M)
    elif f == "free":
        run_free(spec, M)


def replay(case, M):
    k = case["kind"]
    if k == "compiler_reuse":
        comp = Compiler(IdGenerator())
        for text in case["texts"]:
            try:
                doc = dict(Parser().parse(text), uri="u")
            except ParserError:
                continue
            if _no_pickle_ids(comp.compile(copy.deepcopy(doc))) != _no_pickle_ids(Compiler(IdGenerator()).compile(copy.deepcopy(doc))):
                M.violation("C15.history", {"what": "a Compiler that has compiled other documents gives other pickles than a fresh Compiler"}, case)
                return
        return
    if k == "hashseed":
        run_hashseed({"seeds": case["seeds"]}, M)
        return
    if k == "dialect_pair":
        a, b = case["a"], case["b"]
        env = fresh("en")
        one_run(*env, dialect_doc(a), False, M, case=case)
        if one_run(*env, dialect_doc(b), False, M, case=case) != one_run(*fresh("en"), dialect_doc(b), False):
            M.violation("C15.history", {"what": "document in dialect %s parsed after a document in dialect %s on the same Parser/TokenMatcher differs from a fresh parse" % (b, a)}, case)
        return
    if k == "history":
        check_history(case["config"], tuple(case["history"]), tuple(case["stops"]) or (False,) * len(case["history"]), M)
    elif k == "gen":
        env = fresh(case["config"])
        for name in case["pre"]:
            one_run(*env, POOL[name], False, M, case=case)
        got = one_run(*env, case["text"], False, M, case=case)
        if got != one_run(*fresh(case["config"]), case["text"], False):
            M.violation("C15.history", {"what": "generated document after perturbing predecessors differs from a fresh parse"}, case)
    elif k == "schedule":
        install_gate()
        jobs = [(SCHED_DOCS[n], case["stop"], case["matcher"]) for n in case["docs"]]
        solo_res = [one_run(*fresh(j[2]), j[0], j[1]) for j in jobs]
        res, _ = run_schedule(jobs, case["schedule"])
        M.case("replay")
        if res != solo_res:
            M.violation("C15.schedule", {"what": "a parse interleaved with other parses differs from its solo result", "documents": case["docs"]}, case)
    elif k == "free":
        run_free(case, M)
    else:
        run_markdown(M)


def finish(M, tier):
    return {"exhaustive": True,
            "exhaustive_subspace": "all ordered pairs (x4 stop patterns) and triples over the %d-document pool x 3 matcher configurations; all interleavings at token-read granularity of the listed document pairs/triple" % len(POOL),
            "distinct_predecessor_pairs": len(M.sets.get("predecessor_pairs", ()))}
