"""Shared machinery of the pickle-compiler checks C06..C11: AST generator in the parser's
shape, the comparison of the real Compiler.compile with the reference compiler R4, split
by field group so that each property's check decides only its own fields."""
from __future__ import annotations

import copy
import json
import traceback

from .. import observe, refcompile, docmodel
from ..common import h64, short

from gherkin.pickles.compiler import Compiler
from gherkin.stream.id_generator import IdGenerator

GROUPS = {
    "C06": "count/order/name/uri/language/astNodeIds",
    "C07": "steps: astNodeIds/text/argument",
    "C08": "tags",
    "C09": "substituted name/text/argument",
    "C10": "step types",
    "C11": "ids",
}
STEP_TYPES = {"Unknown", "Context", "Action", "Outcome"}
D1 = "D1-placeholder-header-used-as-regex"
D2 = "D2-outline-first-conjunction-type-None"

NAMES = ["a", "b", "h", "a.b", "a(b", "x*", "[", "$", "\\", "a\\|b", "h h", "", "a+", "é", "<a>", "a>b", "1", "^a", "a|b", "(?i)a", "\\d", ".", "\\1",
         # pairs that unicode normalisation or case folding would identify: decomposed/precomposed, compatibility forms, case
         "e\u0301", "\u212b", "\u00c5", "A\u030a", "\u1100\u1161", "\uac00", "\uf900", "\u8c48", "\ufb01", "fi", "\u2126", "\u03a9",
         "A", "H", "\u0130", "\uff41", "\u00df", "ss"]
VALUES = ["1", "", "v", "\\", "\\1", "\\g<0>", "$1", "<a>", "<b>", "a.b", "x y", "|", "\n", "é\U0001F600", "\\\\", "(", "<h>", "&", "\\n", "e\u0301", "\u212b", "\ufeff", "\u2028",
          # values that mention their own or another column's placeholder with something around it
          "x<a>", "<a>x", "<a><a>", "<b>x", "x<h> y", "<<a>>", "<a> and <b>"]
KTYPES = ["Context", "Action", "Outcome", "Conjunction", "Unknown"]
KEYWORD = {"Context": "Given ", "Action": "When ", "Outcome": "Then ", "Conjunction": "And ", "Unknown": "* "}


class AstGen:
    """Random AST dictionaries in the shape Parser.parse returns; ids are assigned afterwards
    in the canonical order so that the document is one a parse with a fresh generator could return."""

    def __init__(self, rnd, hostile_names=True):
        self.r = rnd
        self.hostile = hostile_names
        self.line = 0

    def loc(self):
        self.line += 1
        return {"line": self.line, "column": self.r.randint(1, 9)}

    def tmpl(self, hdrs):
        r = self.r
        parts = []
        for _ in range(r.randint(0, 3)):
            c = r.random()
            if c < 0.5 and hdrs:
                parts.append("<" + r.choice(hdrs) + ">")
            elif c < 0.6:
                parts.append("<" + r.choice(NAMES) + ">")
            elif c < 0.7:
                parts.append(r.choice(["<", ">", "<<", ">>", "\\1", "$1", "\\", "<>"]))
            else:
                parts.append(r.choice(["x", "y z", "é", "", " "]))
        return "".join(parts)

    def tags(self):
        # a few tag names look like placeholders of the usual header names: tags are never substituted
        return [{"location": self.loc(), "name": "@" + self.r.choice(["a", "b", "c", "d", "e", "a", "b", "c", "<a>", "t-<h>", "<b>x"])}
                for _ in range(self.r.choice([0, 0, 1, 2, 3]))]

    def cell(self, v):
        return {"location": self.loc(), "value": v}

    def row(self, vals):
        return {"location": self.loc(), "cells": [self.cell(v) for v in vals]}

    def step(self, hdrs, ktype=None):
        r = self.r
        kt = ktype or r.choice(KTYPES)
        s = {"location": self.loc(), "keyword": KEYWORD[kt], "keywordType": kt, "text": self.tmpl(hdrs)}
        c = r.random()
        if c < 0.2:
            nc = r.choice([0, 1, 1, 2, 2, 3])
            rows = [self.row([self.tmpl(hdrs) for _ in range(nc)]) for _ in range(r.choice([0, 1, 1, 2, 2, 3]))]     # 0 rows: only in hand-built documents
            s["dataTable"] = {"location": rows[0]["location"] if rows else self.loc(), "rows": rows}
        elif c < 0.4:
            ds = {"location": self.loc(), "content": r.choice(["", self.tmpl(hdrs), self.tmpl(hdrs) + "\n" + self.tmpl(hdrs)]),
                  "delimiter": r.choice(['"""', "```"])}
            if r.random() < 0.5:
                ds["mediaType"] = r.choice(["json", self.tmpl(hdrs) or "m"])
            s["docString"] = ds
        return s

    def background(self):
        return {"background": {"location": self.loc(), "keyword": "Background", "name": "", "description": "",
                               "steps": [self.step([]) for _ in range(self.r.choice([0, 1, 1, 2, 3]))]}}

    def scenario(self):
        r = self.r
        exs = []
        hdrs_all = []
        nex = r.choice([0, 0, 0, 1, 1, 2, 3, 4])
        for _ in range(nex):
            names = NAMES if self.hostile else ["a", "b", "h"]
            # 0 columns: the header (and every body row) is a bare '|', which the parser returns with cells == []
            hdrs = [r.choice(names) for _ in range(r.choice([0, 1, 1, 1, 2, 2, 3]))]
            hdrs_all += hdrs
            ex = {"location": self.loc(), "tags": self.tags(), "keyword": "Examples", "name": "", "description": "", "tableBody": []}
            if r.random() < 0.8:
                ex["tableHeader"] = self.row(hdrs)
                ex["tableBody"] = [self.row([r.choice(VALUES) for _ in hdrs]) for _ in range(r.choice([0, 1, 1, 2, 3]))]
            exs.append(ex)
        steps = [self.step(hdrs_all) for _ in range(r.choice([0, 1, 2, 2, 3, 4]))]
        return {"scenario": {"location": self.loc(), "tags": self.tags(), "keyword": r.choice(["Scenario", "Scenario Outline"]),
                             "name": self.tmpl(hdrs_all), "description": "", "steps": steps, "examples": exs}}

    def doc(self):
        r = self.r
        if r.random() < 0.02:
            return {"comments": []}
        children = []
        if r.random() < 0.5:
            children.append(self.background())
        for _ in range(r.choice([0, 1, 1, 2, 3])):
            children.append(self.scenario())
        for _ in range(r.choice([0, 0, 1, 2, 3])):
            rc = []
            if r.random() < 0.5:
                rc.append(self.background())
            for _ in range(r.choice([0, 1, 2, 3])):
                rc.append(self.scenario())
            children.append({"rule": {"location": self.loc(), "tags": self.tags(), "keyword": "Rule", "name": "r",
                                      "description": "", "children": rc}})
        doc = {"feature": {"tags": self.tags(), "location": self.loc(), "language": r.choice(["en", "fr", "em"]),
                           "keyword": "Feature", "name": "f", "description": "", "children": children}, "comments": []}
        return doc


def assign_ids(doc, start=0):
    """Give every id-owning node its id in the canonical order; returns the next free id."""
    k = start
    for node in refcompile.ref_ids(doc):
        node["id"] = str(k)
        k += 1
    return k


def generator_at(k):
    """A generator whose next id is k."""
    g = IdGenerator()
    if getattr(g, "_id_counter", None) == 0 and k > 64:
        g._id_counter = k                    # fast path; verified right below
        probe_next = IdGenerator()
        probe_next._id_counter = k
        if probe_next.get_next_id() == str(k):
            return g
        g = IdGenerator()
    for _ in range(k):
        g.get_next_id()
    return g


def shape_of(doc):
    f = doc.get("feature")
    if not f:
        return "featureless"
    parts = []

    def sc(s):
        ex = s["examples"]
        return "S%d%s" % (min(len(s["steps"]), 2), "".join("E%s%d" % ("h" if "tableHeader" in e else "-", min(len(e["tableBody"]), 2)) for e in ex))
    for c in f["children"]:
        if "background" in c:
            parts.append("B%d" % min(len(c["background"]["steps"]), 2))
        elif "scenario" in c:
            parts.append(sc(c["scenario"]))
        else:
            parts.append("R(" + ",".join(("B%d" % min(len(cc["background"]["steps"]), 2)) if "background" in cc else sc(cc["scenario"])
                                         for cc in c["rule"]["children"]) + ")")
    return " ".join(parts)


_HELD = {}


def _edit_in_place(o):
    """rename every tag, reverse every tag list (same lengths, same list objects), rename scenarios and steps"""
    if isinstance(o, dict):
        if isinstance(o.get("tags"), list):
            o["tags"].reverse()
            for t in o["tags"]:
                t["name"] = t.get("name", "") + "_edited"
        if "steps" in o and "name" in o:
            o["name"] = o["name"] + " (edited)"
        if "text" in o and "keyword" in o:
            o["text"] = o["text"] + " (edited)"
        for v in o.values():
            _edit_in_place(v)
    elif isinstance(o, list):
        for v in o:
            _edit_in_place(v)


def _reordered(o):
    if isinstance(o, dict):
        return {k: _reordered(o[k]) for k in reversed(list(o))}
    if isinstance(o, list):
        return [_reordered(x) for x in o]
    return o


def compare(doc, uri, next_free, prop, M, case, compiler=None):
    """Compile `doc` (ids already assigned, next free id known) with the real compiler and
    with R4; report differences of the field group of `prop`; others are advisory.
    With `compiler` given, that (reused) Compiler object is used and the expected pickle ids
    continue from its own generator."""
    doc = dict(doc)
    doc["uri"] = uri
    before = copy.deepcopy(doc)
    if compiler is not None:
        next_free = int(compiler.id_generator.get_next_id()) + 1
        M.count("compiles_on_reused_compiler")
    want = refcompile.ref_compile(doc, uri, refcompile.counter_from(next_free))
    M.count("compile_calls")
    try:
        with observe.cpu_budget(30):
            got = (compiler or Compiler(generator_at(next_free))).compile(doc)
    except observe.CpuBudgetExceeded as e:
        M.violation(prop + ".crash", {"what": "Compiler.compile did not finish within 30 s of CPU time", "stack": short(traceback.format_exc()[-600:], 600)}, case)
        return None
    except Exception as e:
        origin = observe._origin(e)
        mech = D1 if (type(e).__name__ == "error" and origin.endswith("_interpolate")) else None
        M.violation(prop + ".crash", {"what": "exception escaped Compiler.compile", "type": type(e).__name__,
                                      "repr": repr(e)[:160], "origin": origin}, case, mechanism=mech)
        return None
    if compiler is None and M.counters.get("compile_calls", 0) % 4 == 2:
        # the same document as a caller may hold it: loaded from JSON, its dictionaries filled in another order
        M.count("reordered_documents_compared")
        try:
            got3 = Compiler(generator_at(next_free)).compile(_reordered(json.loads(json.dumps(before))))
        except Exception as e:
            got3 = {"raised": repr(e)[:160]}
        if got3 != want:
            d3 = diff_groups(got3, want) if isinstance(got3, list) else {prop: [{"got": got3}]}
            if prop in d3:
                M.violation(prop + ".reordered", {"what": "the same document loaded from JSON with its keys in another order compiles to other pickles (%s)" % GROUPS.get(prop, prop),
                                                  "differences": short(d3.get(prop), 300)}, case)
            else:
                M.count("advisory.reordered_differs_in_other_group")
    if compiler is None and M.counters.get("compile_calls", 0) % 8 == 1:
        # the caller edits the document he holds (renames every tag, reverses every tag list, renames the scenarios) and compiles
        # it again with the SAME Compiler: the pickles are those of the document as it is now
        M.count("edited_recompiles_compared")
        comp2 = Compiler(generator_at(next_free))
        d4 = json.loads(json.dumps(before))
        try:
            comp2.compile(d4)
            _edit_in_place(d4)
            start2 = int(comp2.id_generator.get_next_id()) + 1
            got4 = comp2.compile(d4)
            want4 = refcompile.ref_compile(d4, uri, refcompile.counter_from(start2))
        except Exception as e:
            got4, want4 = {"raised": repr(e)[:160]}, None
        if got4 != want4:
            d4g = diff_groups(got4, want4) if isinstance(got4, list) and want4 is not None else {prop: [{"got": got4}]}
            if prop in d4g:
                M.violation(prop + ".edited", {"what": "a document edited in place by its owner and compiled again by the same Compiler gives pickles that do not match the document as it is now (%s)" % GROUPS.get(prop, prop),
                                               "differences": short(d4g.get(prop), 300)}, case)
            else:
                M.count("advisory.edited_recompile_differs_in_other_group")
    if compiler is None and M.counters.get("compile_calls", 0) % 4 == 0:
        # the same document compiled a second time (a caller may compile a document it has kept): same pickles
        M.count("recompiles_compared")
        try:
            got2 = Compiler(generator_at(next_free)).compile(doc)
        except Exception as e:
            got2 = {"raised": repr(e)[:160]}
        if got2 != got:
            d2 = diff_groups(got2, want) if isinstance(got2, list) else {prop: [{"got": got2}]}
            if prop in d2 or not isinstance(got2, list):
                M.violation(prop + ".recompile", {"what": "compiling the same document a second time gives other pickles (%s)" % GROUPS.get(prop, prop),
                                                  "differences": short(d2.get(prop), 300)}, case)
            else:
                M.count("advisory.recompile_differs_in_other_group")
    if compiler is not None:
        # a pickle list returned by an earlier compile() on the same Compiler must not change when the next document is compiled
        prev = _HELD.get(id(compiler))
        if prev is not None and prev[0] is compiler:
            M.count("retained_pickle_lists_rechecked")
            if prev[1] != prev[2]:
                M.violation(prop + ".retained", {"what": "the pickle list returned by an earlier compile() on the same Compiler changed when a later document was compiled",
                                                 "earlier_len": len(prev[2]), "now_len": len(prev[1]) if isinstance(prev[1], list) else None}, case)
        _HELD[id(compiler)] = (compiler, got, copy.deepcopy(got))
    if doc != before:
        if prop in ("C08", "C07"):
            M.violation(prop + ".mutated", {"what": "compile modified the document it was given"}, case)
        else:
            M.count("advisory.compile_mutated_input")
    M.count("pickles_compared", len(want))
    diffs = diff_groups(got, want)
    for g, items in diffs.items():
        if g == prop:
            mech = None
            if g == "C10" and all(d.get("got") is None for d in items):
                mech = D2
            if g == "C09":
                mech = D1 if d1_applies(doc) else None
            M.violation(prop + ".pickles", {"what": "pickles differ from the reference compiler in: " + GROUPS[g],
                                            "differences": items[:3], "n": len(items)}, case, mechanism=mech)
        else:
            M.count("advisory.diff_in_" + g)
    return got


_META = set(".^$*+?{}[]\\|()")


def d1_applies(doc):
    """Some examples header of the document contains a regex metacharacter (precondition of D1)."""
    for kind, node in observe.iter_nodes(doc):
        if kind == "examples" and "tableHeader" in node:
            if any(set(c["value"]) & _META for c in node["tableHeader"]["cells"]):
                return True
    return False


def diff_groups(got, want):
    out = {}

    def add(g, **kw):
        out.setdefault(g, []).append(kw)

    if not isinstance(got, list):
        add("C06", what="compile did not return a list", got=repr(got)[:80])
        return out
    if len(got) != len(want):
        add("C06", what="number of pickles", got=len(got), want=len(want))
    # align by position (order matters)
    for i, (a, b) in enumerate(zip(got, want)):
        if not isinstance(a, dict):
            add("C06", pickle=i, what="pickle is not a dict")
            continue
        for k in ("uri", "language", "astNodeIds"):
            if a.get(k) != b[k]:
                add("C06", pickle=i, field=k, got=a.get(k), want=b[k])
        if a.get("name") != b["name"]:
            # name of an outline pickle is substitution (C09) as well as identity (C06)
            add("C06", pickle=i, field="name", got=a.get("name"), want=b["name"])
            add("C09", pickle=i, field="name", got=a.get("name"), want=b["name"])
        if a.get("id") != b["id"]:
            add("C11", pickle=i, field="id", got=a.get("id"), want=b["id"])
        if a.get("tags") != b["tags"]:
            add("C08", pickle=i, got=a.get("tags"), want=b["tags"])
        sa, sb = a.get("steps"), b["steps"]
        if not isinstance(sa, list) or len(sa) != len(sb):
            add("C07", pickle=i, what="number of steps", got=len(sa) if isinstance(sa, list) else repr(sa), want=len(sb))
            continue
        for j, (x, y) in enumerate(zip(sa, sb)):
            if x.get("astNodeIds") != y["astNodeIds"]:
                add("C07", pickle=i, step=j, field="astNodeIds", got=x.get("astNodeIds"), want=y["astNodeIds"])
            outline_own = len(y["astNodeIds"]) == 2
            for k in ("text", "argument"):
                if x.get(k) != y.get(k):
                    add("C07", pickle=i, step=j, field=k, got=x.get(k), want=y.get(k))
                    add("C09", pickle=i, step=j, field=k, got=x.get(k), want=y.get(k), own_step=outline_own)
            if x.get("type") != y["type"] or x.get("type") not in STEP_TYPES:
                add("C10", pickle=i, step=j, got=x.get("type"), want=y["type"])
            if x.get("id") != y["id"]:
                add("C11", pickle=i, step=j, field="id", got=x.get("id"), want=y["id"])
            extra = set(x) - {"astNodeIds", "id", "type", "text", "argument"}
            if extra:
                add("C07", pickle=i, step=j, what="unexpected keys", got=sorted(extra))
        extra = set(a) - {"astNodeIds", "id", "tags", "name", "language", "steps", "uri"}
        if extra:
            add("C06", pickle=i, what="unexpected keys", got=sorted(extra))
    return out


def parsed_doc(seed, family, i, M, **kw):
    """A W2 document through the real parser with a fresh generator -> (ast, next free id, text) or None."""
    from .doccheck import make_doc
    R = make_doc(seed, family, i, **kw)
    o = observe.parse_observed(R.text)
    if o.status != "ok":
        M.count("advisory.generated_document_rejected")
        return None
    M.count("documents_parsed")
    return o.ast, int(o.idgen.get_next_id()), R.text


def stream_pickles_agree(text, prop, M, case):
    """The pickles a consumer gets from the stream, under every combination of the print options that has pickles on, are the
    pickles Compiler.compile returns for the parsed document (fresh objects each time, so the ids agree as well)."""
    from gherkin.parser import Parser
    from gherkin.ast_builder import AstBuilder
    from gherkin.stream.id_generator import IdGenerator
    idg = IdGenerator()
    try:
        doc = Parser(AstBuilder(idg)).parse(text)
    except Exception:
        return
    doc = dict(doc)
    doc["uri"] = "features/x.feature"
    want = Compiler(idg).compile(doc)
    for opts in ((True, True, True), (False, True, True), (True, False, True), (False, False, True)):
        st, envs, opened, _ = observe.enum_observed(text, uri="features/x.feature", options=opts)
        M.count("stream_option_runs")
        if st != "ok":
            M.violation(prop + ".stream", {"what": "exception escaped GherkinEvents.enum", "options": opts, **envs}, case,
                        mechanism=observe.f1_from_opened(text, opened))
            continue
        got = [e["pickle"] for e in envs if "pickle" in e]
        M.count("stream_pickles_compared", len(want))
        if got != want:
            M.violation(prop + ".stream", {"what": "pickles yielded by the stream differ from Compiler.compile on the parsed document",
                                           "options": opts, "got_n": len(got), "want_n": len(want)}, case)


def childless_without_uri(prop, M):
    """Documents the parser returns for empty, comment-only and childless sources carry no uri (the stream layer adds it):
    compiling them as they are yields no pickles."""
    from gherkin.parser import Parser
    for text in ("", "# only a comment\n", "\n\n", "Feature: f\n", "@t\nFeature: f\n  description\n", "# language: fr\nFonctionnalité: f\n"):
        doc = Parser().parse(text)
        case = {"kind": "childless", "text": text}
        M.count("childless_documents_compiled")
        for comp in (Compiler(), Compiler(generator_at(5))):
            try:
                res = comp.compile(doc)
            except Exception as e:
                M.violation(prop + ".crash", {"what": "exception escaped Compiler.compile for a document without scenarios (as returned by the parser, no uri)",
                                              "type": type(e).__name__, "repr": repr(e)[:160], "text": text}, case)
                break
            if res != []:
                M.violation(prop + ".pickles", {"what": "a document without scenarios compiled to pickles", "text": text, "n": len(res)}, case)
                break


class YieldingGen:
    """A caller's id generator that gives other threads a chance on every draw (a lock, a database sequence, ...)."""

    def __init__(self, start):
        self.n = start

    def get_next_id(self):
        import time
        time.sleep(0)
        v = str(self.n)
        self.n += 1
        time.sleep(0)
        return v


def threaded_compile(prop, M, seed, rounds=25, nthreads=4):
    """Several Compiler objects at work in several threads, each on its own documents, with id generators that yield the
    processor on every draw: every result equals the result the same compile gives alone."""
    import random as _random
    import sys
    import threading
    r = _random.Random("%s-threads-%s" % (prop, seed))
    docs = []
    while len(docs) < nthreads * 3:
        doc = AstGen(r, hostile_names=True).doc()
        k = assign_ids(doc)
        doc["uri"] = "features/t.feature"
        if sum(len(c.get("scenario", {}).get("examples", [])) for c in doc.get("feature", {}).get("children", []) if "scenario" in c) >= 2:
            docs.append((doc, k))
    ref = [Compiler(YieldingGen(k)).compile(copy.deepcopy(d)) for d, k in docs]
    results = {}
    errors = []

    def work(t):
        try:
            for n in range(rounds):
                j = (t * 3 + n) % len(docs)
                d, k = docs[j]
                results[(t, n)] = (j, Compiler(YieldingGen(k)).compile(copy.deepcopy(d)))
        except Exception as e:
            errors.append(repr(e)[:200])

    old = sys.getswitchinterval()
    sys.setswitchinterval(1e-6)
    try:
        ths = [threading.Thread(target=work, args=(t,)) for t in range(nthreads)]
        for t in ths:
            t.start()
        for t in ths:
            t.join()
    finally:
        sys.setswitchinterval(old)
    M.count("threaded_compiles", len(results))
    case = {"kind": "threads", "seed": seed}
    if errors:
        M.violation(prop + ".threads", {"what": "exception in a thread that compiles with its own Compiler while other threads compile too", "errors": errors[:3]}, case)
    bad = [(key, j) for key, (j, res) in results.items() if res != ref[j]]
    if bad:
        (t, n), j = bad[0]
        M.violation(prop + ".threads", {"what": "a Compiler working in one thread while other Compiler objects work in other threads returns other pickles than alone",
                                        "deviating_compiles": len(bad), "of": len(results),
                                        "differences": short(diff_groups(results[(t, n)][1], ref[j]), 300)}, case)


class ReentrantGen:
    """A caller's id generator through which, at its k-th draw, the same Compiler is asked to compile ANOTHER document
    (a callback, a logging hook, ... ): whatever compile() keeps on the instance while it runs is overwritten."""

    def __init__(self, start, k, action):
        self.n, self.k, self.action, self.draws = start, k, action, 0

    def get_next_id(self):
        self.draws += 1
        if self.draws == self.k:
            self.action()
        v = str(self.n)
        self.n += 1
        return v


def _no_ids(pickles):
    return [{k: ([{kk: vv for kk, vv in st.items() if kk != "id"} for st in v] if k == "steps" else v) for k, v in p.items() if k != "id"} for p in pickles]


def reentrant_compile(prop, M, seed, n=40):
    """compile(A) on a Compiler that is asked to compile(B) in the middle (from inside the id generator): A's pickles are
    those a Compiler gives that compiles A alone, pickle ids aside."""
    import random as _random
    r = _random.Random("%s-reentrant-%s" % (prop, seed))
    for _ in range(n):
        docs = []
        for _k in range(2):
            d = AstGen(r, hostile_names=False).doc()
            nx = assign_ids(d)
            d["uri"] = "features/r.feature"
            docs.append((d, nx))
        (a, na), (b, nb) = docs
        want = Compiler(generator_at(na)).compile(copy.deepcopy(a))
        draws = 2 * sum(1 + len(p["steps"]) for p in want) or 1
        for k in sorted({1, 2, max(1, draws // 4), max(1, draws // 2)}):
            holder = {}
            gen = ReentrantGen(na, k, lambda: holder["c"].compile(copy.deepcopy(b)) if not holder.get("busy") and not holder.update(busy=True) else None)
            holder["c"] = Compiler(gen)
            M.count("reentrant_compiles")
            case = {"kind": "reentrant", "seed": seed}
            try:
                got = holder["c"].compile(copy.deepcopy(a))
            except Exception as e:
                M.violation(prop + ".reentrant", {"what": "compile raised when the same Compiler compiled another document in the middle", "error": repr(e)[:160]}, case)
                continue
            if _no_ids(got) != _no_ids(want):
                dg = diff_groups(_renumber(got, want), want)
                if prop in dg or len(got) != len(want):
                    M.violation(prop + ".reentrant", {"what": "pickles of a document differ when the same Compiler compiled another document in the middle of it (%s)" % GROUPS.get(prop, prop),
                                                      "draw": k, "differences": short(dg.get(prop), 300)}, case)
                else:
                    M.count("advisory.reentrant_differs_in_other_group")


def _renumber(got, want):
    """got with the pickle/step ids of want (same positions), so that only other fields can differ"""
    out = copy.deepcopy(got)
    for p, w in zip(out, want):
        p["id"] = w.get("id")
        for st, ws in zip(p.get("steps", []), w.get("steps", [])):
            st["id"] = ws.get("id")
    return out
