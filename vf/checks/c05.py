"""C05 — every keyword of every dialect is recognised in its role; foreign ones are not."""
from __future__ import annotations

import json

from .. import observe, dialects
from ..common import h64, short, MASTER_LANGUAGES, PACKAGED_LANGUAGES
from .base import rng, shards, apply_parse_monitors

from gherkin.token_matcher import TokenMatcher
from gherkin.token import Token
from gherkin.gherkin_line import GherkinLine
from gherkin.parser import Parser
from gherkin.errors import ParserError
from gherkin import dialect as dialect_mod

ID = "C05"
LEVEL = "exploration"
RULE = ("Complete enumeration: 80 dialects x every listed keyword (1749) x role, each in 4 layouts (indented, 'K:name', 'K: name ', "
        "empty name/text), parsed (a) with TokenMatcher(dialect) as default and (b) with default 'en' and a '# language:' header in "
        "5 spellings matched by the header pattern; AST keyword, keywordType, feature.language compared with the keyword-table rules "
        "R9 (first listed step keyword that prefixes the line; type of its category, Unknown when multi-listed).  Foreign keywords: "
        "for every ordered pair of dialects (A,B) every keyword line of B for which the table gives A no keyword in that role must "
        "not be matched in that role under A (matcher level) and is free text / an error in a full parse (sampled).  Header "
        "placement (after a tag line, after the feature line, second header), unknown names (error at the header, parsing continues "
        "in the default dialect), packaged table == master table (bytes and loaded object).  Distinct = (dialect, keyword, role, layout, mode).")
ASSUMPTIONS = ["the master table /repo/gherkin-languages.json is the specification of keywords and categories",
               "header spellings are exactly those the documented pattern '^\\s*#\\s*language\\s*:\\s*([a-zA-Z\\-_]+)\\s*$' matches"]
DECIDING = ["keyword_cases", "foreign_line_checks", "header_cases", "table_comparisons"]
TITLE_KEYS = {"feature": "feature", "rule": "rule", "background": "background", "scenario": "scenario",
              "scenarioOutline": "scenario", "examples": "examples"}
LAYOUTS = [("", ":", " name", ""), ("  \t", ":", "name", ""), ("    ", ":", "  name  ", " "), ("", ":", "", "")]
HEADERS = ["#language:%s", "  #  language  :  %s  ", "# language: %s\r", "# c1\n\n#language: %s", "\t#\tlanguage\t:\t%s"]


def plan(tier, seed):
    names = sorted(dialects.master())
    specs = []
    for s in range(0, 80, 5):
        specs.append({"family": "keywords", "dialects": names[s:s + 5], "seed": seed, "n": 5, "unicode": tier != "quick"})
    for s in range(0, 80, 5):
        specs.append({"family": "foreign", "dialects": names[s:s + 5], "seed": seed, "n": 5})
    for s in range(0, 80, 10):
        specs.append({"family": "reused", "dialects": names[s:s + 10], "seed": seed, "n": 10})
    specs.append({"family": "headers", "seed": seed, "n": 1})
    specs += shards("header_spellings", 3000 if tier == "quick" else 100000, 500 if tier == "quick" else 5000, seed)
    specs.append({"family": "table", "seed": seed, "n": 1})
    return specs


def doc_for(spec, role, kw, layout, name_text="name"):
    """A minimal document using keyword `kw` in `role`; returns (lines, path to the node, expected dict)."""
    ind, colon, name, pad = layout
    name = name.replace("name", name_text)
    F = spec["feature"][0] + ": f"
    S = "  " + spec["scenario"][0] + ": s"
    G = "    " + dialects.step_keywords(spec)[0][0] + "g"
    if role in dialects.TITLE_ROLES:
        line = ind + kw + colon + name + pad
        exp = {"keyword": kw, "name": name.strip()}
        if role == "feature":
            return [line], ("feature",), exp
        if role == "rule":
            return [F, line], ("feature", "children", 0, "rule"), exp
        if role == "background":
            return [F, line], ("feature", "children", 0, "background"), exp
        if role in ("scenario", "scenarioOutline"):
            return [F, line], ("feature", "children", 0, "scenario"), exp
        if role == "examples":
            return [F, S, G, line], ("feature", "children", 0, "scenario", "examples", 0), exp
    # step roles
    text = name
    line = ind + kw + text + pad
    return [F, S, line], ("feature", "children", 0, "scenario", "steps", 0), None


def get(ast, path):
    o = ast
    for p in path:
        o = o[p]
    return o


def check_keyword(d, spec, role, kw, li, layout, mode, hdr_i, M, uni=False):
    name_text = "name" if not uni else "n\u00e9\U0001F600 \u6f22"
    lines, path, exp = doc_for(spec, role, kw, layout, name_text)
    key = [d, role, kw, li, mode, hdr_i, uni]
    M.case(h64(key))
    M.count("keyword_cases")
    if mode == "default":
        text = "\n".join(lines) + "\n"
        matcher = TokenMatcher(d)
    else:
        text = (HEADERS[hdr_i] % d) + "\n" + "\n".join(lines) + "\n"
        matcher = None
    case = {"kind": "keyword", "key": key, "text": text}
    # the third layout of every keyword is read from a file (TokenScanner(path)), the fourth from a TokenScanner object
    as_file = li == 2 and observe.file_loadable(text)
    if as_file:
        M.count("keyword_cases_from_files")
    o = observe.parse_observed(text, matcher=matcher, as_file=as_file, as_scanner=(li == 3))
    if o.status != "ok":
        M.violation("C05.keyword", {"what": "keyword line not recognised (document rejected)", "dialect": d, "role": role, "keyword": kw,
                                    "errors": o.err_messages()[:2], "crash": o.tb}, case)
        return
    try:
        node = get(o.ast, path)
    except (KeyError, IndexError, TypeError):
        M.violation("C05.keyword", {"what": "keyword line not recognised in its role", "dialect": d, "role": role, "keyword": kw,
                                    "ast": short(o.ast, 300)}, case)
        return
    if o.ast["feature"].get("language") != d:
        M.violation("C05.language", {"what": "feature does not report the dialect in force", "got": o.ast["feature"].get("language"), "want": d}, case)
    if role in dialects.TITLE_ROLES:
        if node.get("keyword") != exp["keyword"] or node.get("name") != exp["name"]:
            M.violation("C05.keyword", {"what": "keyword/name differ from the listed keyword and the trimmed rest of the line",
                                        "got": [node.get("keyword"), node.get("name")], "want": [exp["keyword"], exp["name"]]}, case)
    else:
        line = lines[-1].lstrip()
        ek, kt = dialects.expected_step(spec, line)
        want = {"keyword": ek, "keywordType": kt, "text": line[len(ek):].strip()}
        got = {k: node.get(k) for k in want}
        if ek != kw:
            M.count("step_keyword_prefix_clashes")
        if got != want:
            M.violation("C05.step", {"what": "step keyword/keywordType/text differ from the first-listed-prefix rule", "dialect": d,
                                     "line": line, "got": got, "want": want}, case)
        if kt == "Unknown":
            M.count("multi_listed_keywords")
        if not kw.endswith(" "):
            M.count("keywords_without_trailing_blank")


def run_keywords(spec_, M):
    m = dialects.master()
    for d in spec_["dialects"]:
        spec = m[d]
        for role in dialects.TITLE_ROLES + dialects.STEP_ROLES:
            for kw in spec[role]:
                for li, layout in enumerate(LAYOUTS):
                    if role in dialects.STEP_ROLES and layout[2] == "" and not kw.endswith(" "):
                        pass
                    check_keyword(d, spec, role, kw, li, layout, "default", 0, M)
                    if d != "en":
                        check_keyword(d, spec, role, kw, li, layout, "header", li % len(HEADERS), M)
                    else:
                        check_keyword(d, spec, role, kw, li, layout, "header", li % len(HEADERS), M)
                if spec_.get("unicode"):
                    check_keyword(d, spec, role, kw, 0, LAYOUTS[2], "default", 0, M, uni=True)
                # matcher level: the keyword line as a single token
                M.count("matcher_level_checks")
        # every header spelling once per dialect
        for hi in range(len(HEADERS)):
            check_keyword(d, spec, "feature", spec["feature"][0], 0, LAYOUTS[0], "header", hi, M)
        M.hist("dialects", d)
    M.sample({"dialects": spec_["dialects"], "layouts": LAYOUTS, "header_spellings": HEADERS})


MATCH = {"feature": "match_FeatureLine", "rule": "match_RuleLine", "background": "match_BackgroundLine",
         "scenario": "match_ScenarioLine", "scenarioOutline": "match_ScenarioLine", "examples": "match_ExamplesLine"}


def run_foreign(spec_, M):
    """Under dialect A, a keyword line of B is recognised in a role iff the table gives A a keyword for it."""
    m = dialects.master()
    names = sorted(m)
    for a in spec_["dialects"]:
        A = m[a]
        matcher = TokenMatcher(a)
        for b in names:
            if b == a:
                continue
            B = m[b]
            for role in dialects.TITLE_ROLES:
                for kw in B[role]:
                    line = kw + ": x\n"
                    group = ["scenario", "scenarioOutline"] if role in ("scenario", "scenarioOutline") else [role]
                    want = any(line.startswith(k + ":") for g in group for k in A[g])
                    tok = Token(GherkinLine(line, 1), {"line": 1})
                    got = getattr(matcher, MATCH[role])(tok)
                    M.count("foreign_line_checks")
                    if not want:
                        M.count("foreign_lines_not_keywords")
                    if bool(got) != want:
                        M.violation("C05.foreign", {"what": "keyword of another dialect %s as a %s line" % ("recognised" if got else "not recognised", role),
                                                    "dialect_in_force": a, "keyword_of": b, "keyword": kw}, {"kind": "foreign", "a": a, "b": b, "role": role, "kw": kw})
            for kw, role in dialects.step_keywords(B):
                line = kw + "x\n"
                want = dialects.expected_step(A, line)
                tok = Token(GherkinLine(line, 1), {"line": 1})
                got = matcher.match_StepLine(tok)
                M.count("foreign_line_checks")
                if want is None:
                    M.count("foreign_lines_not_keywords")
                if bool(got) != (want is not None) or (got and (tok.matched_keyword, tok.matched_keyword_type) != want):
                    M.violation("C05.foreign", {"what": "step keyword of another dialect handled differently from the table rule",
                                                "dialect_in_force": a, "keyword_of": b, "keyword": kw, "got": [bool(got), getattr(tok, "matched_keyword", None)],
                                                "want": want}, {"kind": "foreign", "a": a, "b": b, "role": role, "kw": kw})
        # full parse sample: a foreign feature keyword is not a feature line; a foreign scenario keyword inside a feature is description text
        r = rng(spec_["seed"], ID, "foreign", a)
        for _ in range(12):
            b = r.choice(names)
            if b == a:
                continue
            kw = r.choice(m[b]["scenario"])
            if any((kw + ":").startswith(k + ":") for g in ("scenario", "scenarioOutline", "background", "rule") for k in A[g]) or \
                    dialects.expected_step(A, kw + ": x"):
                continue
            text = A["feature"][0] + ": f\n  " + kw + ": x\n"
            o = observe.parse_observed(text, matcher=TokenMatcher(a))
            M.count("foreign_full_parses")
            if o.status != "ok" or o.ast["feature"]["children"] or o.ast["feature"]["description"] != "  " + kw + ": x":
                M.violation("C05.foreign", {"what": "a scenario keyword of another dialect is not plain description text", "dialect_in_force": a,
                                            "keyword_of": b, "keyword": kw, "status": o.status}, {"kind": "text", "text": text, "default": a})
            kwf = r.choice(m[b]["feature"])
            if not any((kwf + ":").startswith(k + ":") for k in A["feature"]):
                text = kwf + ": x\n"
                o = observe.parse_observed(text, matcher=TokenMatcher(a))
                M.count("foreign_full_parses")
                if o.status == "ok":
                    M.violation("C05.foreign", {"what": "a feature keyword of another dialect was accepted as a feature line", "dialect_in_force": a,
                                                "keyword_of": b, "keyword": kwf}, {"kind": "text", "text": text, "default": a})


def run_headers(M):
    """Header placement and unknown names."""
    def parse(text, default="en"):
        M.count("header_cases")
        M.case(h64(["hdr", text, default]))
        return observe.parse_observed(text, matcher=TokenMatcher(default))
    fr = dialects.master()["fr"]
    # header honoured only at the top (after comments/blank lines is still the top)
    o = parse("# c\n\n#language: fr\n@t\nFonctionnalité: f\n")
    if o.status != "ok" or o.ast["feature"]["language"] != "fr" or o.ast["feature"]["keyword"] != "Fonctionnalité":
        M.violation("C05.header", {"what": "header after comments/blank lines not honoured", "status": o.status}, {"kind": "text", "text": o.source, "default": "en"})
    for text, what in [("@t\n#language: fr\nFeature: f\n", "after a tag line"),
                       ("Feature: f\n#language: fr\n  Scenario: s\n", "after the feature line"),
                       ("#language: en\n#language: fr\nFeature: f\n", "second header")]:
        o = parse(text)
        ok = o.status == "ok" and o.ast["feature"]["language"] == "en" and o.ast["feature"]["keyword"] == "Feature" and \
            any(c["text"].strip() == "#language: fr" for c in o.ast["comments"])
        if not ok:
            M.violation("C05.header", {"what": "a language header %s must be a plain comment and leave the dialect unchanged" % what,
                                       "status": o.status, "errors": o.err_messages()[:2]}, {"kind": "text", "text": text, "default": "en"})
        # ... and the French keyword line is then not a feature line
    o = parse("@t\n#language: fr\nFonctionnalité: f\n")
    if o.status == "ok":
        M.violation("C05.header", {"what": "header after a tag line switched the dialect"}, {"kind": "text", "text": o.source, "default": "en"})
    # unknown dialect names: one error at the header (line, indent+1); parsing continues in the default dialect
    for default in ("en", "fr", "no"):
        dspec = dialects.master()[default]
        for name in ("zz", "en_US", "EN", "no-such", "fr-", "_", "en-") + (tuple(dialects.derived_unknown_names()) if default == "en" else ()):
            if name in dialects.master():
                continue
            M.count("unknown_names_checked")
            for ind in ("", "   "):
                text = "%s#language: %s\n%s: f\n  %s: s\n" % (ind, name, dspec["feature"][0], dspec["scenario"][0])
                o = parse(text, default)
                want = ["(1:%d): Language not supported: %s" % (len(ind) + 1, name)]
                if o.err_messages() != want or o.errors[0]["location"] != {"line": 1, "column": len(ind) + 1}:
                    M.violation("C05.unknown", {"what": "unknown dialect not reported exactly once at the header, or parsing did not continue in the default dialect",
                                                "got": o.err_messages()[:3], "location": o.errors[0]["location"] if o.errors else None, "want": want},
                                {"kind": "text", "text": text, "default": default})
    # a non-default matcher restores its default at the next parse (reset)
    mt = TokenMatcher("fr")
    p = Parser()
    for text, lang in [("#language: no\nEgenskap: f\n", "no"), ("Fonctionnalité: f\n", "fr"), ("#language: en\nFeature: f\n", "en"), ("Fonctionnalité: f\n", "fr")]:
        M.count("header_cases")
        try:
            ast = p.parse(text, mt)
            got = ast["feature"]["language"]
        except ParserError as e:
            got = "rejected: %s" % e
        if got != lang:
            M.violation("C05.default", {"what": "reused matcher with default 'fr': wrong dialect in force", "text": text, "got": got, "want": lang},
                        {"kind": "reuse"})


WS = [" ", "\t", "\u00a0", "\u3000", "\u2003", "\x0b", "\x0c", "\x1c", "\u0085", "\u2028"]      # all matched by \\s


def run_header_spellings(spec_, M):
    """Random spellings generated from the documented header pattern are honoured; near misses are plain comments."""
    m = dialects.master()
    names = sorted(m)
    for i in range(spec_["start"], spec_["start"] + spec_["n"]):
        r = rng(spec_["seed"], ID, "hdr", i)
        d = r.choice(names)
        sp = m[d]
        ws = lambda lo=0: "".join(r.choice(WS) for _ in range(r.randint(lo, 3)))
        before = "".join(r.choice(["\n", "# c\n", "  \n", "#language\n", "# language : \n"]) for _ in range(r.randint(0, 3)))
        good = ws() + "#" + ws() + "language" + ws() + ":" + ws() + d + ws()
        body = sp["feature"][0] + ": f\n  " + sp["scenario"][0] + ": s\n    " + dialects.step_keywords(sp)[0][0] + "x\n"
        M.count("header_cases")
        M.case(h64(["spelling", good, d]))
        text = before + good + "\n" + body
        o = observe.parse_observed(text)
        case = {"kind": "text", "text": text, "default": "en"}
        if o.status != "ok" or o.ast["feature"].get("language") != d or o.ast["feature"]["keyword"] != sp["feature"][0]:
            M.violation("C05.header", {"what": "a header spelling matched by the documented pattern was not honoured", "header": good, "dialect": d,
                                       "status": o.status, "errors": o.err_messages()[:2]}, case)
        # near misses: must stay comments, the document is then read in the default dialect (en)
        miss = r.choice(["# language " + d, "#language: " + d + " x", "# Language: " + d, "#language:" + d + "!", "# lang: " + d,
                         "#language:", "x #language: " + d, "#language: " + d + "\u200b", "#languagе: " + d])
        text2 = miss + "\nFeature: f\n"
        o2 = observe.parse_observed(text2)
        M.count("header_cases")
        M.case(h64(["miss", miss]))
        ok = o2.status == "ok" and o2.ast["feature"]["language"] == "en" and [c["text"] for c in o2.ast["comments"]] == [miss] if not miss.startswith("x ") else o2.status != "ok"
        if not ok:
            M.violation("C05.header", {"what": "a line that does not match the header pattern was treated as a language header (or not kept as a comment)",
                                       "line": miss, "status": o2.status, "errors": o2.err_messages()[:2]}, {"kind": "text", "text": text2, "default": "en"})


def run_reused(spec_, M):
    """One TokenMatcher (default d0) and one Parser reused: a document that switches to dialect d by header, then a
    header-less document that must be read in d0 again (title keywords, every step keyword category, keyword types)."""
    m = dialects.master()
    for d0 in ("en", "fr"):
        D0 = m[d0]
        matcher = TokenMatcher(d0)
        parser = Parser()
        probe_lines = [D0["feature"][0] + ": f", "  " + D0["background"][0] + ":", "    " + D0["given"][-1] + "g",
                       "  " + D0["scenarioOutline"][0] + ": s"]
        want_steps = []
        for role in dialects.STEP_ROLES:
            kw = D0[role][-1]
            line = kw + "t"
            probe_lines.append("    " + line)
            ek, kt = dialects.expected_step(D0, line)
            want_steps.append({"keyword": ek, "keywordType": kt, "text": line[len(ek):].strip()})
        probe_lines += ["    " + D0["examples"][0] + ":", "      | a |"]
        probe = "\n".join(probe_lines) + "\n"
        for d in spec_["dialects"]:
            D = m[d]
            switch = "# language: %s\n%s: x\n  %s: y\n    %sz\n" % (d, D["feature"][0], D["scenario"][0], dialects.step_keywords(D)[-1][0])
            for text, lang in ((switch, d), (probe, d0)):
                M.count("keyword_cases")
                M.count("parses_on_reused_matcher")
                M.case(h64(["reused", d0, d, text]))
                o = observe.parse_observed(text, parser=parser, matcher=matcher)
                case = {"kind": "reused", "dialects": spec_["dialects"], "d0": d0, "d": d}
                if o.status != "ok" or o.ast["feature"].get("language") != lang:
                    M.violation("C05.default", {"what": "reused matcher: document not read in the dialect in force (header dialect, then the configured default again)",
                                                "default": d0, "previous_header": d, "expected_language": lang, "status": o.status,
                                                "errors": o.err_messages()[:2], "language": o.ast["feature"].get("language") if o.status == "ok" else None}, case)
                    continue
                if text is probe:
                    sc = [c["scenario"] for c in o.ast["feature"]["children"] if "scenario" in c]
                    got = [{k: s_.get(k) for k in ("keyword", "keywordType", "text")} for s_ in (sc[0]["steps"] if sc else [])]
                    if got != want_steps:
                        M.violation("C05.default", {"what": "reused matcher: steps of a header-less document are not read with the configured default dialect's keywords",
                                                    "default": d0, "previous_header": d, "got": got[:3], "want": want_steps[:3]}, case)


def run_table(M):
    M.count("table_comparisons")
    M.case("table")
    a = open(MASTER_LANGUAGES, "rb").read()
    b = open(PACKAGED_LANGUAGES, "rb").read()
    if a != b:
        M.violation("C05.table", {"what": "packaged gherkin-languages.json differs from the repository's master table (bytes)",
                                  "sizes": [len(a), len(b)]}, {"kind": "table"})
    M.count("table_comparisons")
    if dialect_mod.DIALECTS != json.loads(a.decode("utf-8")):
        M.violation("C05.table", {"what": "table loaded by gherkin.dialect differs from the master table"}, {"kind": "table"})
    if dialect_mod.DIALECT_FILE_PATH != PACKAGED_LANGUAGES:
        M.count("advisory.dialect_file_path_differs")
    # keyword facts the generators rely on
    st = dialects.stats()
    M.notes["table"] = st
    if st != {"dialects": 80, "keywords": 1749}:
        M.count("advisory.table_size_changed")


def run_shard(spec, M):
    f = spec["family"]
    if f == "keywords":
        run_keywords(spec, M)
    elif f == "foreign":
        run_foreign(spec, M)
    elif f == "reused":
        run_reused(spec, M)
    elif f == "headers":
        run_headers(M)
    elif f == "header_spellings":
        run_header_spellings(spec, M)
    else:
        run_table(M)


def replay(case, M):
    k = case["kind"]
    if k == "keyword":
        d, role, kw, li, mode, hdr_i, uni = case["key"]
        check_keyword(d, dialects.master()[d], role, kw, li, LAYOUTS[li], mode, hdr_i, M, uni)
    elif k == "foreign":
        run_foreign({"dialects": [case["a"]], "seed": 0}, M)
    elif k == "text":
        o = observe.parse_observed(case["text"], matcher=TokenMatcher(case.get("default", "en")))
        M.case("replay")
        print("replay outcome:", o.status, o.err_messages()[:2])
        run_headers(M)
    elif k == "reuse":
        run_headers(M)
    elif k == "reused":
        run_reused({"dialects": case["dialects"]}, M)
    else:
        run_table(M)


def finish(M, tier):
    return {"exhaustive": True, "exhaustive_subspace": "80 dialects x all listed keywords x role x 4 layouts x {default dialect, language header}; all ordered dialect pairs x keyword lines at matcher level",
            "dialects_covered": len(M.hists.get("dialects", {})), "table": M.notes.get("table")}
