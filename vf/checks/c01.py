"""C01 — the parse/compile/stream pipeline is total and fails only with typed, located
errors; matcher work is linear in the number of lines."""
from __future__ import annotations

import os
import sys
import time

from .. import observe, noisy, docmodel, workloads, corpus, probe
from ..common import h64, short
from .base import rng, shards, apply_parse_monitors, cover_transitions, outcome_key, ReusedEnv

from gherkin.parser import Parser

ID = "C01"
LEVEL = "exploration"
RULE = ("Source texts from five generators (W5 hostile Unicode fragment strings, structured hostile outlines, "
        "W4 noisy pool documents, W2 rendered documents, W3 fault-injected documents, W1 corpus and its line "
        "mutations) are run through Parser.parse in collecting and stop-at-first-error mode, Compiler.compile "
        "on every returned document and GherkinEvents.enum with rotating print options; W6 scaling families are "
        "run at n, 2n, 4n under a sys.monitoring LINE-event step counter.  A case is distinct by the hash of its "
        "source text and non-trivial when it is non-empty."
        " Also: every text additionally on a reused Parser/TokenMatcher (perturbing predecessors), GherkinEvents.enum also with a stop-at-first-error parser (every third call), corpus splicing with character-level mutation, the repository's own tests under the monitors (W0).")
ASSUMPTIONS = [
    "inputs are bounded (<= 4000 lines / ~1 MB); MemoryError and RecursionError of the interpreter are out of scope",
    "Compiler.compile is called with the document's uri attached, as its typed signature, the unit tests and the stream layer do",
    "the worker's current directory is empty, so a source text coincides with a filesystem entry only in the dedicated F1 sub-workload",
    "linearity is decided on logical clocks (matcher calls, executed source lines); CPU time is only a coarse guard for work hidden inside C-level regex calls",
]
DECIDING = ["header_documents", "parses_observed", "compile_calls", "enum_calls", "G1.evaluated", "scaling_triples"]
G_DECIDING = {"G1", "G2", "G8"}
OPTS = [(a, b, c) for a in (True, False) for b in (True, False) for c in (True, False)]
ENV_KEYS = {"source", "gherkinDocument", "pickle", "parseError"}


def plan(tier, seed):
    q = tier == "quick"
    specs = []
    specs += shards("hostile", 8000 if q else 400000, 600 if q else 8000, seed)
    specs += shards("structured", 1500 if q else 60000, 400 if q else 4000, seed)
    specs += shards("noisy", 3000 if q else 100000, 500 if q else 5000, seed)
    specs += shards("docs", 1000 if q else 50000, 250 if q else 2500, seed)
    specs += shards("faulted", 1500 if q else 50000, 300 if q else 2500, seed)
    specs += shards("splice", 3000 if q else 150000, 500 if q else 5000, seed)
    if q:
        specs += shards("corpus", 1, 1, seed, mutations=False)
    else:
        for part in range(26):
            specs.append({"family": "corpus", "seed": seed, "n": 1, "mutations": True, "part": part, "parts": 26})
    specs += shards("f1", 1, 1, seed)
    specs.append({"family": "headers", "seed": seed, "n": 1})
    specs += shards("asts", 3000 if q else 150000, 500 if q else 5000, seed)
    specs.append({"family": "w0", "seed": seed, "n": 1})
    for fam in workloads.SCALING_FAMILIES:
        specs.append({"family": "scaling", "name": fam, "N": 250 if q else 2000, "seed": seed, "n": 1})
    if not q:
        specs.append({"family": "bigline", "seed": seed, "n": 1})
    return specs


def check_text(text, M, case, idx=0, full=True):
    """One source text through every entry point."""
    M.case(h64(text), nontrivial=bool(text))
    results = {}
    for stop in (False, True):
        o = observe.parse_observed(text, stop)
        results[stop] = o
        M.hist("outcome." + ("stop" if stop else "collect"), outcome_key(o))
        c = dict(case, stop=stop)
        apply_parse_monitors(o, M, c, G_DECIDING)
        cover_transitions(o, M)
        if o.status == "crash":
            M.hist("exception_types", type(o.exc).__name__)
        if o.status == "ok":
            st, res, mutated, doc = observe.compile_observed(o.ast, idgen=o.idgen)
            M.count("compile_calls")
            if st != "ok":
                M.violation("G1.compile", {"what": "exception escaped Compiler.compile", **res}, c,
                            mechanism=observe.f1_mechanism(o))
            elif not isinstance(res, list):
                M.violation("G1.compile", {"what": "compile did not return a list", "value": repr(res)[:100]}, c)
            else:
                M.count("pickles_returned", len(res))
    # acceptance must not depend on the error mode
    a, b = results[False], results[True]
    if (a.status == "ok") != (b.status == "ok") and "crash" not in (a.status, b.status):
        M.violation("G1.modes", {"what": "accepted in one error mode and rejected in the other",
                                 "collect": a.status, "stop": b.status}, case, mechanism=observe.f1_mechanism(a))
    if full and idx % 2 == 0:
        # another configuration of the same public API: the parser built with the token-listing builder of the package
        # (scripts/generate_tokens.py): a listing (str) or the library's parser error, nothing else
        from gherkin.token_formatter_builder import TokenFormatterBuilder
        from gherkin.errors import ParserError as _PE
        with probe.auditing() as opened_tf:
            try:
                with observe.cpu_budget(observe.budget_for(text)):
                    res = Parser(TokenFormatterBuilder()).parse(text)
                M.count("formatter_parses")
                if not isinstance(res, str):
                    M.violation("G1.formatter", {"what": "Parser(TokenFormatterBuilder()).parse did not return a listing", "value": repr(res)[:100]}, case)
            except _PE:
                M.count("formatter_parses")
            except (Exception, observe.CpuBudgetExceeded, probe.WorkBoundExceeded) as e:
                M.count("formatter_parses")
                M.violation("G1.formatter", {"what": "exception other than ParserError escaped Parser(TokenFormatterBuilder()).parse", "type": type(e).__name__,
                                             "repr": repr(e)[:200], "origin": observe._origin(e)}, case,
                            mechanism=observe.F1 if text in opened_tf else None)
    if full:
        opts = OPTS[idx % 8]
        enum_stop = (idx % 3 == 0)
        st, envs, opened, src = observe.enum_observed(text, options=opts, stop=enum_stop)
        M.count("enum_calls")
        M.count("enum_calls.stop_mode" if enum_stop else "enum_calls.collecting_mode")
        if st == "ok" and enum_stop and results[True].status == "single":
            # the stream must turn the single raised error into exactly one parseError envelope
            if [list(e) for e in envs] != [["parseError"]] or envs[0]["parseError"].get("message") != results[True].errors[0]["message"]:
                M.violation("G1.enum", {"what": "stop-at-first-error stream: the raised error was not turned into exactly one parseError envelope",
                                        "envelopes": short(envs, 200)}, case)
        mech = observe.F1 if text in opened else None
        if st != "ok":
            M.violation("G1.enum", {"what": "exception escaped GherkinEvents.enum", **envs, "options": opts}, case, mechanism=mech)
        else:
            for e in envs:
                if not isinstance(e, dict) or len(e) != 1 or next(iter(e)) not in ENV_KEYS:
                    M.violation("G1.enum", {"what": "envelope of an unknown kind", "keys": list(e) if isinstance(e, dict) else repr(e)}, case)
                    break
                M.hist("envelopes", next(iter(e)))
            if mech:
                M.violation("G11", {"what": "the source text was opened as a file during GherkinEvents.enum", "opened": opened[:3]}, case, mechanism=mech)
            elif [p for p in opened if p == text]:
                pass
    return results


def run_shard(spec, M):
    fam = spec["family"]
    seed = spec["seed"]
    if fam in ("hostile", "structured", "noisy", "docs", "faulted", "splice"):
        texts = [g["text"] for g in corpus.good() + corpus.bad()] if fam == "splice" else None
        env = ReusedEnv(rng(seed, ID, "reuse", fam, spec["shard"]), p_perturb=0.3)
        for i in range(spec["start"], spec["start"] + spec["n"]):
            r = rng(seed, ID, fam, i)
            if fam == "splice":
                text = workloads.spliced(r, texts)
            elif fam == "hostile":
                text = workloads.hostile(r)
            elif fam == "structured":
                text = workloads.structured_hostile(r)
            elif fam == "noisy":
                L = noisy.gen_any(r)
                text = noisy.text_of(L, nl=r.choice(["\n", "\n", "\r\n"]), final=r.random() < 0.8)
            elif fam == "docs":
                text = docmodel.render(r, rare=(i % 3 == 0), size=r.choice(["small", "medium", "medium", "large"])).text
            else:
                R = docmodel.render(r, size=r.choice(["small", "medium"]))
                text, _ = workloads.faulted(r, R)
            case = {"kind": "text", "family": fam, "index": i, "seed": seed, "text": text}
            fresh = check_text(text, M, case, i)
            # the same text on objects that have parsed other documents before (typed outcome must not depend on history)
            stop = i % 4 == 0
            o = env.parse(text, M, stop=stop)
            rcase = {"kind": "shard", "spec": spec, "index": i, "text": text}
            apply_parse_monitors(o, M, rcase, G_DECIDING)
            if o.status == "ok":
                st, res, _, _ = observe.compile_observed(o.ast, idgen=env.idgen)
                M.count("compile_calls")
                if st != "ok":
                    M.violation("G1.compile", {"what": "exception escaped Compiler.compile (reused objects)", **res}, rcase)
            if o.status != "crash" and fresh[stop].status != "crash" and (o.status, o.err_messages()) != (fresh[stop].status, fresh[stop].err_messages()):
                M.count("advisory.reused_outcome_differs_from_fresh")
            if i % 997 == 0:
                M.sample({"family": fam, "text": short(text, 300)})
    elif fam == "asts":
        # documents of the parser's shape with hostile names, placeholders and values (also values that mention placeholders):
        # compiling returns a list, whatever the values are
        from . import picklecheck as pc
        for i in range(spec["start"], spec["start"] + spec["n"]):
            r = rng(seed, ID, "asts", i)
            doc = pc.AstGen(r, hostile_names=True).doc()
            pc.assign_ids(doc)
            M.case(h64(doc))
            st, res, _, _ = observe.compile_observed(doc)
            M.count("compile_calls")
            M.count("generated_asts_compiled")
            if st != "ok":
                M.violation("G1.compile", {"what": "exception escaped Compiler.compile (or it did not finish) for a document of the parser's shape", **res},
                            {"kind": "ast", "doc": doc})
            elif not isinstance(res, list):
                M.violation("G1.compile", {"what": "compile did not return a list", "value": repr(res)[:100]}, {"kind": "ast", "doc": doc})
    elif fam == "headers":
        # language headers naming every dialect of the table and every name derived from one (language part alone, other
        # region/script, other case, '_' for '-', a letter more or less), at the top and after a first header
        from .. import dialects as _dl
        names = sorted(_dl.master()) + _dl.derived_unknown_names()
        for k, name in enumerate(names):
            for text in ("# language: %s\nFeature: f\n  Scenario: s\n    Given x\n" % name,
                         "#language:%s\n# language: %s\n\n* y\n" % (name, names[(k * 7) % len(names)])):
                M.count("header_documents")
                check_text(text, M, {"kind": "text", "family": fam, "text": text}, k)
    elif fam == "w0":
        from .base import run_repo_tests_under_monitors
        run_repo_tests_under_monitors(M, G_DECIDING)
    elif fam == "corpus":
        k = 0
        for gi, g in enumerate(corpus.good() + corpus.bad()):
            if spec.get("parts") and gi % spec["parts"] != spec["part"]:
                continue
            text = g["text"]
            check_text(text, M, {"kind": "text", "family": "corpus", "path": g["path"], "text": text}, k)
            k += 1
            if spec.get("mutations"):
                lines = text.split("\n")
                positions = range(len(lines)) if len(lines) <= 150 else range(0, len(lines), max(1, len(lines) // 50))
                for j in positions:
                    for name, mut in (("del", lines[:j] + lines[j + 1:]), ("dup", lines[:j + 1] + lines[j:]),
                                      ("swap", lines[:j] + lines[j + 1:j + 2] + lines[j:j + 1] + lines[j + 2:])):
                        t = "\n".join(mut)
                        check_text(t, M, {"kind": "text", "family": "corpus-" + name, "path": g["path"], "line": j + 1, "text": t}, k, full=(j % 5 == 0))
                        k += 1
    elif fam == "f1":
        run_f1(M)
    elif fam == "scaling":
        run_scaling(spec, M)
    elif fam == "bigline":
        for text in ("Feature: " + "x" * 1_000_000 + "\n", "Feature: f\n  Scenario: s\n    Given a\n      |" + " c |" * 200_000 + "\n",
                     "@t " * 100_000 + "\nFeature: f\n", " " * 1_000_000 + "#" + " " * 1000 + "language" + " " * 1000 + ":\n"):
            check_text(text, M, {"kind": "text", "family": "bigline", "text_len": len(text), "text": text[:200] + "..."}, 0)
    else:
        raise KeyError(fam)


def run_f1(M):
    """Source strings that name filesystem entries (finding F1): must be classified by
    mechanism (the scanner opened/probed the text as a path), nothing else."""
    name = "Feature: a file whose name is a feature"
    with open(name, "w", encoding="utf8") as f:
        f.write("Feature: content of the file\n  Scenario: s\n    Given x\n")
    os.mkdir("adir")
    with open("latin1.feature", "wb") as f:
        f.write(b"Feature: caf\xe9\n")
    for k, text in enumerate([".", "..", "/", "adir", name, "latin1.feature", "./adir/../latin1.feature"]):
        check_text(text, M, {"kind": "text", "family": "f1", "text": text, "needs_files": True}, k)
    for p in (name, "latin1.feature"):
        os.remove(p)
    os.rmdir("adir")


class StepClock:
    """Logical clock: number of executed source lines of gherkin/* (sys.monitoring LINE events)."""
    TOOL = 4

    def __init__(self):
        self.n = 0
        self.mon = sys.monitoring

    def __enter__(self):
        mon = self.mon
        try:
            mon.use_tool_id(self.TOOL, "vf-steps")
        except ValueError:
            pass
        prefix = os.path.join(observe.common.PY_ROOT, "gherkin")

        def on_line(code, line):
            if code.co_filename.startswith(prefix):
                self.n += 1
            else:
                return mon.DISABLE
        mon.register_callback(self.TOOL, mon.events.LINE, on_line)
        mon.set_events(self.TOOL, mon.events.LINE)
        return self

    def __exit__(self, *a):
        self.mon.set_events(self.TOOL, 0)
        self.mon.register_callback(self.TOOL, self.mon.events.LINE, None)
        self.mon.free_tool_id(self.TOOL)
        return False


def measure(text, stop=False):
    from gherkin.parser import Parser
    from gherkin.errors import ParserError
    from gherkin.pickles.compiler import Compiler
    bound = None
    with probe.observing() as obs:
        with StepClock() as clk:
            t0 = time.process_time()
            p = Parser()
            p.stop_at_first_error = stop
            try:
                d = p.parse(text)
                d["uri"] = "u"
                Compiler().compile(d)
            except ParserError:
                pass
            except probe.WorkBoundExceeded as e:
                bound = str(e)
            cpu = time.process_time() - t0
    log = obs.logs[-1]
    return {"bound": bound, "match_calls": log.n_match, "steps": clk.n, "cpu": cpu,
            "max_per_line": max(log.match_calls.values()) if log.match_calls else 0,
            "lines": len(log.reads)}


def run_scaling(spec, M):
    name, N = spec["name"], spec["N"]
    rows = []
    for n in (N, 2 * N, 4 * N):
        text = workloads.scaling_family(name, n)
        rows.append(measure(text))
        M.case(h64(text))
        if rows[-1]["bound"]:
            M.violation("scaling", {"what": "logical work bound exceeded: matcher calls far above linear in the number of lines", "family": name, "n": n,
                                    "bound": rows[-1]["bound"], "match_calls": rows[-1]["match_calls"], "lines": rows[-1]["lines"]},
                        {"kind": "scaling", "name": name, "N": N})
            M.count("scaling_triples")
            return
        M.maximum("max_matcher_calls_per_line", rows[-1]["max_per_line"])
        if rows[-1]["max_per_line"] > observe.MATCH_BUDGET:
            M.violation("G2", {"what": "matcher calls on one line exceed the budget", "family": name, "n": n,
                               "calls": rows[-1]["max_per_line"], "budget": observe.MATCH_BUDGET},
                        {"kind": "scaling", "name": name, "N": N})
    M.count("scaling_triples")
    detail = {"family": name, "N": N, "match_calls": [r["match_calls"] for r in rows], "steps": [r["steps"] for r in rows],
              "cpu_s": [round(r["cpu"], 3) for r in rows]}
    for key in ("match_calls", "steps"):
        a, b, c = (max(1, r[key]) for r in rows)
        M.hist("scaling_ratio." + key, "%s:%.2f,%.2f" % (name, b / a, c / b))
        if (b / a > 2.3 or c / b > 2.3) and c > 2000:
            M.violation("scaling", dict(detail, what="%s grows faster than linearly when the input doubles" % key),
                        {"kind": "scaling", "name": name, "N": N})
    # coarse guard for work hidden in C-level calls (regex): CPU time, generous threshold
    cpu_a, cpu_c = rows[0]["cpu"], rows[2]["cpu"]
    if cpu_c > 2.0 and cpu_c / max(cpu_a, 1e-4) > 11:
        again = [measure(workloads.scaling_family(name, n))["cpu"] for n in (N, 4 * N)]
        if again[1] > 2.0 and again[1] / max(again[0], 1e-4) > 11:
            M.violation("scaling.cpu", dict(detail, what="CPU time grows ~quadratically (x4 input -> >x11 time), twice"),
                        {"kind": "scaling", "name": name, "N": N})
    M.sample(detail)


def replay(case, M):
    if case.get("kind") == "shard":
        run_shard(case["spec"], M)
        return
    if case.get("kind") == "ast":
        st, res, _, _ = observe.compile_observed(case["doc"])
        if st != "ok":
            M.violation("G1.compile", {"what": "exception escaped Compiler.compile (or it did not finish) for a document of the parser's shape", **res}, case)
        return
    if case.get("kind") == "scaling":
        run_scaling({"name": case["name"], "N": case["N"]}, M)
        return
    if case.get("needs_files"):
        run_f1(M)
        return
    check_text(case["text"], M, case, case.get("index", 0))


def finish(M, tier):
    return {
        "transitions_covered": len(M.sets.get("transitions", ())),
        "transitions_total": 334,
        "explanation": "held on the executions counted in monitor_events; exhaustive for nothing (unbounded input space)",
    }
