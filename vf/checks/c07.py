"""C07 — pickle steps = in-scope background steps followed by the scenario's own steps."""
from ._pickle_template import make

ID = "C07"
LEVEL = "exploration"
RULE = ("Same inputs as C06 (direct AST dictionaries with feature- and rule-level backgrounds of 0..3 steps, several rules in "
        "sequence, scenarios and outlines with 0..4 steps, every argument kind incl. empty doc strings and 1x1 tables; W2 documents "
        "through the real parser); the steps of every pickle (astNodeIds, text, argument, count and order) must equal the reference "
        "compiler R4, and compile must not modify its input.  Distinct = hash of the AST / source.")
ASSUMPTIONS = ["R4 reproduces all 41 golden .pickles.ndjson files", "plain header names (substitution is C09's concern)"]
DECIDING = ["compile_calls", "pickles_compared", "documents_parsed"]
plan, run_shard, replay, finish = make(ID, RULE, hostile_names=False)
