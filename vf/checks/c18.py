"""C18 — the builder sees each source line exactly once, in order, then one EOF."""
from __future__ import annotations

import itertools

from .. import observe, noisy, corpus, probe
from ..common import h64, short
from .base import rng, shards, apply_parse_monitors, cover_transitions, ReusedEnv
from . import doccheck, c02

from gherkin.parser import Parser
from gherkin.token_formatter_builder import TokenFormatterBuilder
from gherkin.token_scanner import TokenScanner
from gherkin.errors import ParserError

ID = "C18"
LEVEL = "exploration"
RULE = ("Line-accounting monitor G3 (scanner hands out 1,2,3,.. once each then one EOF; builder receives strictly increasing lines; "
        "accepted => every line once then EOF; rejected => every processed line delivered xor reported unexpected) and the queue "
        "discipline hook on Parser.read_token are deciding on every parse of: (a) all arrangements over {tag line, comment, blank} "
        "up to length L (quick 5, thorough 7) inserted in every parser state that has a look-ahead transition, before each of "
        "Examples / Scenario / Rule / end of file / free text / step, as real text (delivered (line, kind) sequence vs the table "
        "simulator) — plus double arrangements (a second tag run while the first is still being consumed); (b) the same "
        "arrangements at token-kind level through the real Parser.parse with stub scanner/matcher; (c) W2 rendered and W4 noisy "
        "documents; (d) token listings: TokenFormatterBuilder output vs the golden .tokens files and, for generated documents, vs a "
        "listing rebuilt from the tokens a recording builder saw in a normal parse.  Distinct = hash of the source / kind sequence."
        " Also: a reused-parser family (perturbing predecessors, also abandoned parses), threshold documents (look-ahead windows, tables, tag/comment/blank runs of n = 9..1025 lines), every fourth parse from a TokenScanner object, every other listing from one TokenFormatterBuilder reused for the shard, scripts/generate_tokens.py on single and several files.")
ASSUMPTIONS = ["lines are counted by LF only", "the simulator's transitions come from the sibling parsers"]
DECIDING = ["G3.evaluated", "G3q.evaluated", "arrangements_text", "arrangements_kinds", "listings_compared", "Parser.read_token.queue_pops"]
G_DECIDING = {"G3", "G3q"}
RUN = ["TagLine", "Comment", "Empty"]
RUN_TEXT = {"TagLine": "@t1 @t2", "Comment": "# comment", "Empty": ""}
TERMS = ["Examples: X", "Scenario: S", "Rule: R", None, "free text", "Given x", "@bad tag", "| a | b |"]


def la_states():
    table, _, _, _ = observe.sibling_table()
    return sorted(s for s, (tests, _) in table.items() if any(la is not None for _, la, _, _ in tests))


def plan(tier, seed):
    q = tier == "quick"
    specs = []
    for s in la_states():
        specs.append({"family": "arr_text", "state": s, "L": 5 if q else 7, "seed": seed, "n": 1})
    specs += shards("arr_double", 4000 if q else 200000, 500 if q else 5000, seed)
    for first in RUN:
        specs.append({"family": "arr_kinds", "first": first, "L": 6 if q else 8, "seed": seed, "n": 1})
    specs += shards("docs", 2000 if q else 100000, 250 if q else 4000, seed)
    specs += shards("noisy", 3000 if q else 150000, 500 if q else 5000, seed)
    specs += shards("reused", 3000 if q else 150000, 500 if q else 5000, seed)
    specs += [{"family": "thresholds", "seed": seed, "n": 1, "part": k, "parts": 8, "tier": tier} for k in range(8)]
    specs += [{"family": "corpus", "seed": seed, "n": 1}, {"family": "w0", "seed": seed, "n": 1}]
    specs += shards("listings", 600 if q else 30000, 150 if q else 3000, seed)
    return specs


def check_lines(L, M, case, env=None):
    text = noisy.text_of(L)
    M.case(h64(text))
    sim = noisy.simulate(L, False)
    o = env.parse(text, M) if env is not None else observe.parse_observed(text, as_scanner=(M.cases % 4 == 0))
    apply_parse_monitors(o, M, dict(case, text=text), G_DECIDING)
    cover_transitions(o, M)
    if o.log is not None:
        M.count("Parser.read_token.queue_pops", o.log.queue_pops)
        M.count("lookahead_calls", len(o.log.la_calls))
        for which, res, q0, q1, nread in o.log.la_calls:
            if q0:
                M.count("lookahead_started_with_nonempty_queue")
            M.maximum("max_tokens_scanned_by_one_lookahead", max(nread, q1))
    got = list(o.log.builds)
    if got != sim["delivered"]:
        M.violation("C18.delivered", {"what": "(line, kind) sequence delivered to the builder differs from the prediction",
                                      "got": got[-8:], "want": sim["delivered"][-8:], "text": text}, dict(case, text=text))
    return o


def run_shard(spec, M):
    fam = spec["family"]
    if fam == "arr_text":
        s = spec["state"]
        L0, i = noisy.state_paths()[s]
        for n in range(1, spec["L"] + 1):
            for arr in itertools.product(RUN, repeat=n):
                for term in TERMS:
                    mid = [(2, noisy.IDX[RUN_TEXT[k]]) for k in arr]
                    tail = [] if term is None else [(2, noisy.IDX[term]), (4, noisy.IDX["Given x"])]
                    L = L0[:i] + mid + tail
                    M.count("arrangements_text")
                    check_lines(L, M, {"kind": "lines", "L": L})
        M.sample({"state": s, "prefix": [noisy.POOL[p].text for _, p in L0[:i]], "arrangement_like": list(RUN), "terminators": TERMS})
    elif fam == "arr_double":
        states = la_states()
        for k in range(spec["start"], spec["start"] + spec["n"]):
            r = rng(spec["seed"], ID, "double", k)
            s = r.choice(states)
            L0, i = noisy.state_paths()[s]
            L = L0[:i]
            for _ in range(r.randint(2, 4)):
                L = L + [(r.choice([0, 2]), noisy.IDX[RUN_TEXT[r.choice(RUN)]]) for _ in range(r.randint(1, 4))]
                t = r.choice(TERMS)
                if t is not None:
                    L = L + [(2, noisy.IDX[t])]
            M.count("arrangements_text")
            check_lines(L, M, {"kind": "lines", "L": L})
    elif fam == "arr_kinds":
        # kind level: prefix kinds reaching a look-ahead state, arrangement, terminator kind
        prefixes = [["FeatureLine"], ["FeatureLine", "ScenarioLine"], ["FeatureLine", "ScenarioLine", "StepLine"],
                    ["FeatureLine", "ScenarioLine", "ExamplesLine", "TableRow"], ["FeatureLine", "RuleLine", "ScenarioLine", "StepLine", "TableRow"],
                    ["FeatureLine", "BackgroundLine", "StepLine"], ["FeatureLine", "ScenarioLine", "Other"]]
        terms = [["ExamplesLine"], ["ScenarioLine"], ["RuleLine"], [], ["Other"], ["StepLine"], ["ExamplesLine", "TagLine", "ScenarioLine"]]
        for n in range(1, spec["L"] + 1):
            for rest in itertools.product(RUN, repeat=n - 1):
                arr = [spec["first"]] + list(rest)
                for pre in prefixes:
                    for t in terms:
                        kinds = pre + arr + t
                        M.count("arrangements_kinds")
                        check_kinds(kinds, M)
    elif fam == "docs":
        for i in range(spec["start"], spec["start"] + spec["n"]):
            kw = {"size": "huge", "special": 0.3, "deep": True} if i % 80 == 0 else ({"special": 0.3} if i % 3 == 0 else {})
            R = doccheck.make_doc(spec["seed"], "C18", i, **kw)
            M.case(h64(R.text))
            o = observe.parse_observed(R.text)
            case = {"kind": "text", "text": R.text}
            apply_parse_monitors(o, M, case, G_DECIDING)
            if o.status == "ok" and doccheck.generator_sound(R):
                got = [k for _, k in o.log.builds][:-1]
                if got != R.kinds:
                    j = next((x for x, (a, b) in enumerate(zip(got, R.kinds)) if a != b), min(len(got), len(R.kinds)))
                    M.violation("C18.kinds", {"what": "kind of a delivered line differs from the kind the renderer wrote", "line": j + 1,
                                              "got": got[j:j + 3], "want": R.kinds[j:j + 3]}, case)
            elif o.status in ("errors", "single") and o.log is not None and doccheck.generator_sound(R):
                # a well-formed document was rejected (another property's business) — but the tokens delivered BEFORE the
                # first reported line must still carry the kinds of their lines
                first_err = min([e["line"] for e in o.errors if isinstance(e.get("line"), int)] or [0])
                M.count("rejected_wellformed_documents_compared")
                for ln, k in o.log.builds:
                    if ln == "EOF" or ln >= first_err:
                        break
                    if k != R.kinds[ln - 1]:
                        M.violation("C18.kinds", {"what": "token delivered for a line carries another kind than the line has (the document is then rejected further down)",
                                                  "line": ln, "got": k, "want": R.kinds[ln - 1], "first_error": o.err_messages()[:1]}, case)
                        break
    elif fam == "noisy":
        for i in range(spec["start"], spec["start"] + spec["n"]):
            r = rng(spec["seed"], ID, "noisy", i)
            L = noisy.gen_any(r, 40)
            check_lines(L, M, {"kind": "lines", "L": L})
    elif fam == "thresholds":
        # long look-ahead windows, long tables/tag runs/comment runs: sizes around 10, 32, 64, 100, 128, 256, 512, 1000, 1024
        from .. import thresholds
        for dim, n in thresholds.cases(spec["tier"], spec["part"], spec["parts"]):
            R = thresholds.build(dim, n)
            M.case(h64(R.text))
            M.hist("threshold_dims", dim)
            M.maximum("max_threshold_n", n)
            o = observe.parse_observed(R.text)
            case = {"kind": "threshold", "dim": dim, "n": n}
            apply_parse_monitors(o, M, case, G_DECIDING)
            if o.log is not None:
                for which, res, q0, q1, nread in o.log.la_calls:
                    M.maximum("max_tokens_scanned_by_one_lookahead", max(nread, q1))
            got = [k for _, k in o.log.builds][:-1] if o.status == "ok" else None
            if got != R.kinds:
                M.violation("C18.kinds", {"what": "threshold document: delivered line kinds differ from the kinds written (or document rejected)",
                                          "dim": dim, "n": n, "status": o.status, "errors": o.err_messages()[:2],
                                          "delivered": len(got) if got else None, "written": len(R.kinds)}, case)
    elif fam == "reused":
        # the same parser object for the whole shard; perturbing documents (also abandoned parses) in between
        env = ReusedEnv(rng(spec["seed"], ID, "reuse", spec["shard"]))
        states = la_states()
        for i in range(spec["start"], spec["start"] + spec["n"]):
            r = rng(spec["seed"], ID, "reused", i)
            if i % 2:
                L = noisy.gen(r, 25)
            else:
                L0, k = noisy.state_paths()[r.choice(states)]
                L = L0[:k] + [(2, noisy.IDX[RUN_TEXT[r.choice(RUN)]]) for _ in range(r.randint(1, 4))]
                t = r.choice(TERMS)
                if t is not None:
                    L = L + [(2, noisy.IDX[t]), (4, noisy.IDX["Given x"])]
            check_lines(L, M, {"kind": "shard", "spec": spec, "L": L}, env=env)
    elif fam == "w0":
        from .base import run_repo_tests_under_monitors
        run_repo_tests_under_monitors(M, G_DECIDING)
    elif fam == "corpus":
        goods = [g for g in corpus.good() if g["tokens"] is not None]
        for g in goods:
            M.case(h64(g["text"]))
            check_listing(g["text"], M, {"kind": "listing", "text": g["text"]}, golden=g["tokens"], path=g["path"])
        run_cli(goods, M)
    elif fam == "listings":
        for i in range(spec["start"], spec["start"] + spec["n"]):
            r = rng(spec["seed"], ID, "listings", i)
            if i % 3 == 0:
                text = noisy.text_of(noisy.gen(r, 25))
            else:
                text = doccheck.make_doc(spec["seed"], "C18l", i).text
            M.case(h64(text))
            check_listing(text, M, {"kind": "listing", "text": text})


def check_kinds(kinds, M):
    M.case(h64(kinds))
    status, evs, errs, reads = c02.real_run(kinds)
    want_ev, want_err, finished = c02.ref_run(kinds)
    case = {"kind": "kinds", "kinds": kinds}
    # line accounting straight from the recording builder of the stub run
    b = c02.RecBuilder()
    p = Parser(b)
    toks = [c02.tok({k, "Other"} if k != "Other" else {"Other"}, i + 1) for i, k in enumerate(kinds)]
    sc = c02.StubScanner(toks)
    try:
        p.parse(sc, c02.StubMatcher())
    except ParserError:
        pass
    except probe.WorkBoundExceeded as e:
        M.violation("C18.kinds_lines", {"what": "kind-level parse did not terminate within the read bound", "kinds": kinds, "error": str(e)}, case)
        return
    lines = [e[2] for e in b.events if e[0] == "build"]
    unexpected = {l for l, _ in want_err}
    exp = [l for l in range(1, len(kinds) + 1) if l not in unexpected] + ([] if (len(kinds) + 1) in unexpected else ["EOF"])
    if finished and lines != exp:
        M.violation("C18.kinds_lines", {"what": "kind-level parse: delivered lines differ from 'every line once, in order, then EOF'",
                                        "kinds": kinds, "delivered": lines, "want": exp}, case)
    if finished and sc.reads != len(kinds) + 1:
        M.violation("C18.kinds_lines", {"what": "scanner read count differs from lines + EOF", "reads": sc.reads, "kinds": kinds}, case)
    if evs != [tuple(e) for e in want_ev]:
        M.violation("C18.kinds_lines", {"what": "kind-level parse: builder events differ from the grammar", "kinds": kinds}, case)


def run_cli(goods, M):
    """scripts/generate_tokens.py on real files: one file per call (as the Makefile does) and several files on one
    command line (one shared parser/formatter): the printed listings must equal the golden .tokens files."""
    import subprocess
    import sys
    from ..common import PY_ROOT
    env = dict(observe.os.environ, PYTHONPATH=PY_ROOT, PYTHONDONTWRITEBYTECODE="1", PYTHONIOENCODING="utf-8")
    groups = [[g] for g in goods[:4]] + [goods[4:9], goods[::7]]
    for grp in groups:
        pr = subprocess.run([sys.executable, "-B", "-m", "scripts.generate_tokens"] + [g["path"] for g in grp], cwd=PY_ROOT, env=env,
                            capture_output=True, timeout=300)
        M.count("cli_runs")
        want = "".join(g["tokens"].rstrip("\n") + "\n" for g in grp)
        got = pr.stdout.decode("utf8", "replace")
        case = {"kind": "cli", "files": [g["path"] for g in grp]}
        if pr.returncode != 0:
            M.violation("C18.cli", {"what": "scripts.generate_tokens failed", "stderr": pr.stderr.decode("utf8", "replace")[-300:]}, case)
        elif got != want:
            a, b = got.split("\n"), want.split("\n")
            j = next((x for x, (u, v) in enumerate(zip(a, b)) if u != v), min(len(a), len(b)))
            M.violation("C18.cli", {"what": "scripts.generate_tokens prints a listing that differs from the golden .tokens files",
                                    "files": len(grp), "first_difference_at_output_line": j + 1, "got": a[j:j + 2], "want": b[j:j + 2],
                                    "lines_got": len(a), "lines_want": len(b)}, case)


def fmt(t):
    """The canonical listing line of the acceptance corpus, from a token snapshot."""
    if t is None:
        return "EOF"
    kw = "(%s)%s" % (t["keyword_type"] or "", t["keyword"]) if t["keyword"] else ""
    return "(%d:%d)%s:%s/%s/%s" % (t["line"], t["column"], t["type"], kw, t["text"] or "", ",".join("%d:%s" % it for it in t["items"]))


_TF = {}


def check_listing(text, M, case, golden=None, path=None):
    M.count("listings_compared")
    # every other listing is printed by one Parser(TokenFormatterBuilder()) reused for the whole shard,
    # as scripts/generate_tokens.py does for several files
    reuse = M.counters["listings_compared"] % 2 == 0
    if reuse:
        if "p" not in _TF:
            _TF["p"] = Parser(TokenFormatterBuilder())
        tfp = _TF["p"]
        M.count("listings_on_reused_formatter")
    else:
        tfp = Parser(TokenFormatterBuilder())
    try:
        listing = tfp.parse(text)
        status = "ok"
    except ParserError as e:
        listing, status = None, "rejected"
    except Exception as e:
        if observe.os.path.exists(text):
            return
        M.violation("C18.listing", {"what": "token formatter parse raised", "error": repr(e)[:200]}, case)
        return
    if M.counters["listings_compared"] % 4 == 1 and "\r" not in text.replace("\r\n", "") and not observe.os.path.exists(text):
        # the way scripts/generate_tokens.py reads a document: TokenScanner(path).  Same listing as from the string.
        try:
            data = text.encode("utf8")
        except UnicodeEncodeError:
            data = None
        if data is not None:
            from gherkin.token_scanner import TokenScanner
            path = observe.os.path.abspath("c18-listing.feature")
            with open(path, "wb") as fh:
                fh.write(data)
            try:
                try:
                    from_file, st_file = Parser(TokenFormatterBuilder()).parse(TokenScanner(path)), "ok"
                except ParserError:
                    from_file, st_file = None, "rejected"
                M.count("listings_from_files_compared")
                if (st_file, from_file) != (status, listing):
                    M.violation("C18.listing", {"what": "token listing of a document read through TokenScanner(path) differs from the listing of the same text given as a string",
                                                "string": [status, short(listing, 160)], "file": [st_file, short(from_file, 160)]}, case)
            except Exception as e:
                M.violation("C18.listing", {"what": "token formatter parse of TokenScanner(path) raised", "error": repr(e)[:200]}, case)
            finally:
                observe.os.remove(path)
    if golden is not None:
        if status != "ok" or listing != golden.rstrip("\n"):
            M.violation("C18.listing", {"what": "token listing differs from the golden .tokens file", "path": path,
                                        "got": short(listing, 300)}, case)
    probe.capture_tokens(True)
    try:
        o = observe.parse_observed(text)
    finally:
        probe.capture_tokens(False)
    apply_parse_monitors(o, M, case, G_DECIDING)
    if status == "ok" and o.status in ("ok", "errors"):
        # the formatter builder never raises builder errors (no table check), so it also accepts ragged tables
        mine = "\n".join(fmt(t) for t in o.log.tokens)
        if o.status == "ok" and mine != listing:
            a, b = mine.split("\n"), listing.split("\n")
            j = next((x for x, (u, v) in enumerate(zip(a, b)) if u != v), min(len(a), len(b)))
            M.violation("C18.listing", {"what": "printed token listing differs from the tokens delivered to the AST builder",
                                        "line": j + 1, "printed": b[j:j + 2], "delivered": a[j:j + 2]}, case)


def replay(case, M):
    k = case["kind"]
    if k == "cli":
        run_cli([g for g in corpus.good() if g["tokens"] is not None], M)
        return
    if k == "threshold":
        run_shard({"family": "thresholds", "tier": "thorough", "part": 0, "parts": 1, "seed": 0}, M)
        return
    if k == "shard":
        run_shard(case["spec"], M)
        return
    if k == "lines":
        check_lines([tuple(x) for x in case["L"]], M, case)
    elif k == "kinds":
        check_kinds(case["kinds"], M)
    elif k == "listing":
        check_listing(case["text"], M, case)
    else:
        o = observe.parse_observed(case["text"])
        apply_parse_monitors(o, M, case, G_DECIDING)


def finish(M, tier):
    return {"exhaustive": True,
            "exhaustive_subspace": "all arrangements over {tag line, comment, blank} up to length %d in each of the %d look-ahead states x %d terminators (text); up to length %d at kind level" % (
                5 if tier == "quick" else 7, len(la_states()), len(TERMS), 6 if tier == "quick" else 8),
            "transitions_covered": len(M.sets.get("transitions", ()))}
