"""C19 — the Markdown matcher recognises Gherkin lines as MARKDOWN_WITH_GHERKIN.md specifies (line level)."""
from __future__ import annotations

from .. import observe, dialects, refcells
from ..common import h64, short
from .base import rng, shards

from gherkin.token_matcher_markdown import GherkinInMarkdownTokenMatcher
from gherkin.token import Token
from gherkin.gherkin_line import GherkinLine

ID = "C19"
LEVEL = "exploration"
RULE = ("Complete enumeration at line level through the real GherkinInMarkdownTokenMatcher: 80 dialects x every title keyword x "
        "header depth 0..7 x {one blank, no blank} x indentation {0,1,3} x 3 title texts (return value, keyword, trimmed title, "
        "column of the keyword; the role's own method and every other role's method); every step keyword x bullet {*,+,-,none} x "
        "spacing {one blank, none, two blanks} x indentation {0,2}; table rows at indentation 0..8 x {ordinary row, GFM separator "
        "row}; tag lines with 0..5 backtick-quoted tags, stray backticks and wide characters before them (names and columns).  Only "
        "the methods the statement speaks about are called; every call is made twice, on a matcher after reset() and on a matcher "
        "of the same dialect that has seen all earlier lines of the enumeration without a reset (as inside one document).  "
        "Distinct = (dialect, method, line).")
ASSUMPTIONS = ["header prefix = 1..6 '#' followed by exactly one blank; two blanks after the '#' run and mixed separator rows are not specified and not tested",
               "for keywords that are prefixes of one another the first listed keyword (given/when/then/and/but order) is expected, as for classic Gherkin",
               "end-to-end Markdown parsing is documented as JavaScript-only and is outside the property"]
DECIDING = ["title_line_checks", "step_line_checks", "table_row_checks", "tag_line_checks"]
ROLE_METHOD = {"feature": "match_FeatureLine", "rule": "match_RuleLine", "background": "match_BackgroundLine",
               "scenario": "match_ScenarioLine", "scenarioOutline": "match_ScenarioLine", "examples": "match_ExamplesLine"}
METHOD_ROLES = {"match_FeatureLine": ["feature"], "match_RuleLine": ["rule"], "match_BackgroundLine": ["background"],
                "match_ScenarioLine": ["scenario", "scenarioOutline"], "match_ExamplesLine": ["examples"]}


def token(line):
    return Token(GherkinLine(line, 1), {"line": 1})


_SEQ = {}


def call(m, method, line):
    """The matcher method on one line: on `m` after reset(), and on a second matcher of the same dialect that is never
    reset between lines (as within one document): recognition and token fields may not depend on the lines seen before."""
    t = token(line)
    m.reset()
    try:
        res = getattr(m, method)(t)
    except Exception as e:
        return "raised %r" % (e,), t
    key = (type(m), m.dialect_name)
    seq = _SEQ.get(key)
    if seq is None:
        seq = _SEQ[key] = type(m)(m.dialect_name)
    t2 = token(line)
    try:
        res2 = getattr(seq, method)(t2)
    except Exception as e:
        return "raised %r on a matcher that has seen other lines before" % (e,), t2
    fields = lambda x: (getattr(x, "matched_type", None), getattr(x, "matched_keyword", None), getattr(x, "matched_text", None),
                        x.location.get("column"), getattr(x, "matched_items", None))
    if bool(res2) != bool(res) or fields(t2) != fields(t):
        # hand back the deviating observation: the caller's comparison with the expectation reports it
        return bool(res2), t2
    return bool(res), t


def plan(tier, seed):
    names = sorted(dialects.master())
    specs = []
    for s in range(0, 80, 5):
        specs.append({"family": "titles", "dialects": names[s:s + 5], "seed": seed, "n": 5, "unicode": tier != "quick"})
    for s in range(0, 80, 8):
        specs.append({"family": "steps", "dialects": names[s:s + 8], "seed": seed, "n": 8})
    specs.append({"family": "tables", "seed": seed, "n": 1})
    specs += shards("tags", 3000 if tier == "quick" else 100000, 500 if tier == "quick" else 5000, seed)
    return specs


def check_titles(d, M, uni):
    spec = dialects.master()[d]
    m = GherkinInMarkdownTokenMatcher(d)
    # boundary titles: closing-sequence look-alikes, keyword look-alikes, bullets, backticks, pipes
    titles = ["title", "", "  padded title  ", "Export to C#", "a # b ##", "#", "x: y", ": x", "* x", "`@t` t", "| a |", "Given x", "\\"] + \
        (["té\U0001F600: x # y"] if uni else [])
    for role in dialects.TITLE_ROLES:
        method = ROLE_METHOD[role]
        for kw in spec[role]:
            for depth in range(0, 8):
                for blank in (" ", ""):
                    for ind in ("", " ", "   "):
                        for title in titles:
                            line = ind + "#" * depth + blank + kw + ":" + title + "\n"
                            want = 1 <= depth <= 6 and blank == " "
                            res, t = call(m, method, line)
                            M.count("title_line_checks")
                            M.case(h64([d, method, line]))
                            case = {"kind": "title", "dialect": d, "method": method, "line": line}
                            if res is not want:
                                M.violation("C19.title", {"what": "header line %s" % ("not recognised" if want else "recognised although it lacks a valid header prefix"),
                                                          "dialect": d, "role": role, "line": line, "result": res}, case)
                                continue
                            if want:
                                got = (t.matched_type, t.matched_keyword, t.matched_text, t.location.get("column"))
                                exp = (method[6:], kw, title.strip(), len(ind) + depth + 2)
                                if got != exp:
                                    M.violation("C19.title", {"what": "token fields differ (type, keyword, trimmed title, column of the keyword)",
                                                              "line": line, "got": got, "want": exp}, case)
            # a keyword of this role is not recognised by the other roles' methods, unless listed there too
            line = "## " + kw + ": x\n"
            for other, roles in METHOD_ROLES.items():
                want = any(kw == k for r in roles for k in spec[r])
                res, t = call(m, other, line)
                M.count("title_line_checks")
                if res is not want:
                    M.violation("C19.title", {"what": "keyword recognised in a role it is not listed for" if res else "keyword not recognised in a role it is listed for",
                                              "dialect": d, "keyword": kw, "method": other}, {"kind": "title", "dialect": d, "method": other, "line": line})
    M.hist("dialects", d)


def expected_step(spec, line):
    """The statement's reading of a Markdown step line: bullet, optional blanks, first listed step keyword."""
    trimmed = line.lstrip()
    indent = len(line) - len(trimmed)
    if not trimmed or trimmed[0] not in "*+-":
        return None
    rest = trimmed[1:]
    body = rest.lstrip()
    nws = len(rest) - len(body)
    for k, _ in dialects.step_keywords(spec):
        if body.startswith(k):
            text = body[len(k):].split("\n")[0].strip()
            return k, text, indent + 1 + nws + 1
    return None


def check_steps(d, M):
    spec = dialects.master()[d]
    m = GherkinInMarkdownTokenMatcher(d)
    for kw, role in dialects.step_keywords(spec):
        for bullet in ("*", "+", "-", ""):
            for sp in (" ", "", "  "):
                for ind in ("", "  "):
                    if bullet == "" and sp != " ":
                        continue
                    text = ("text here ", "C# and F#", "- x", "* y #", "`@t`")[(len(kw) + len(ind) + len(sp)) % 5]
                    line = ind + bullet + (sp if bullet else "") + kw + text + "\n"
                    want = expected_step(spec, line)
                    res, t = call(m, "match_StepLine", line)
                    M.count("step_line_checks")
                    M.case(h64([d, "step", line]))
                    case = {"kind": "step", "dialect": d, "line": line}
                    if res is not (want is not None):
                        M.violation("C19.step", {"what": "list-item step line %s" % ("not recognised" if want else "recognised although it lacks the bullet prefix"),
                                                 "dialect": d, "line": line, "result": res}, case)
                        continue
                    if want:
                        got = (t.matched_type, t.matched_keyword, t.matched_text, t.location.get("column"))
                        exp = ("StepLine",) + want
                        if got != exp:
                            M.violation("C19.step", {"what": "token fields differ (type, keyword, trimmed text, column of the keyword)",
                                                     "line": line, "got": got, "want": exp}, case)
        # a matcher of ANOTHER dialect that is still alive (used earlier in this process, never reset since) goes on
        # recognising its own step lines, whatever this dialect's matchers have done in the meantime
        others = [k for k in _SEQ if isinstance(k, tuple) and k[1] != d]
        if others:
            ok_ = others[(len(kw) + len(d)) % len(others)]
            ospec = dialects.master()[ok_[1]]
            okw = [k for k, _ in dialects.step_keywords(ospec) if k != "* "][(len(kw)) % max(1, len([k for k, _ in dialects.step_keywords(ospec) if k != "* "]))]
            oline = "- " + okw + "probe\n"
            owant = expected_step(ospec, oline)
            ot = token(oline)
            try:
                ores = bool(_SEQ[ok_].match_StepLine(ot))
            except Exception as e:
                ores = "raised %r" % (e,)
            M.count("other_dialect_probes")
            if ores is not (owant is not None) or (owant and (ot.matched_keyword, ot.matched_text, ot.location.get("column")) != owant):
                M.violation("C19.step", {"what": "a Markdown matcher of dialect %s, alive while matchers of dialect %s are used, no longer reads its own step line" % (ok_[1], d),
                                         "line": oline, "result": ores, "got": [getattr(ot, "matched_keyword", None), getattr(ot, "matched_text", None)], "want": owant},
                            {"kind": "step", "dialect": ok_[1], "line": oline})
        # header lines are not steps; step keyword lines are not headers
        res, _ = call(m, "match_StepLine", "# " + kw + "x\n")
        if res is not False and expected_step(spec, "# " + kw + "x\n") is None:
            M.violation("C19.step", {"what": "header-prefixed line recognised as a step", "dialect": d, "keyword": kw}, {"kind": "step", "dialect": d, "line": "# " + kw + "x\n"})
    M.hist("dialects", d)


def check_tables(M):
    m = GherkinInMarkdownTokenMatcher("en")
    rows = {"ordinary": ["| a | b |", "|a|", "| - x | y |", "| 1 | 2 | 3 |", "| é | \U0001F600 |", "| a \\| b |",
                         # boundary rows: empty cells, colon-only cells, cells that merely start like a separator
                         "| Aslak |  |", "|| x |", "||", "| : | a |", "| :: |", "| -1 | 2 |", "| --force | yes |", "| :-) | x |", "| a-- | b |",
                         "| - - | x |", "| -:- | x |", "| \\- | x |"],
            "separator": ["| --- | --- |", "|---|", "| :--- | ---: |", "|:-:|:-:|", "| - | - |"]}
    for n in range(0, 9):
        for kind, rr in rows.items():
            for row in rr:
                line = " " * n + row + "\n"
                want = (2 <= n <= 5) and kind == "ordinary"
                res, t = call(m, "match_TableRow", line)
                M.count("table_row_checks")
                M.case(h64(["table", line]))
                case = {"kind": "table", "line": line}
                if res is not want:
                    M.violation("C19.table", {"what": "table row %s" % ("not recognised at indentation 2..5" if want else
                                                                         "recognised outside indentation 2..5 or although it is a GFM separator row"),
                                              "indent": n, "row": row, "result": res}, case)
                elif want:
                    got = [(i["column"], i["text"]) for i in t.matched_items]
                    exp = refcells.ref_cells(line.rstrip("\n"))
                    if t.matched_type != "TableRow" or got != exp:
                        M.violation("C19.table", {"what": "cells of a recognised row differ from the documented splitting", "got": got, "want": exp}, case)
    # exhaustive small cells over {-, :, x, blank}: a cell is separator-like iff it is ':'? '-'+ ':'?
    import itertools

    def sep_like(cell):
        c = cell.strip()
        if c.startswith(":"):
            c = c[1:]
        if c.endswith(":"):
            c = c[:-1]
        return c != "" and set(c) == {"-"}
    for n in range(0, 5):
        for w in itertools.product("-:x ", repeat=n):
            cell = "".join(w)
            for other, kind in (("y", "ordinary"), ("---", "separator")):
                if (kind == "ordinary") == sep_like(cell):
                    continue          # mixed rows are not specified
                line = "  |" + cell + "|" + other + "|\n"
                want = kind == "ordinary"
                res, t = call(m, "match_TableRow", line)
                M.count("table_row_checks")
                M.case(h64(["table", line]))
                if res is not want:
                    M.violation("C19.table", {"what": "row with a small cell %s" % ("not recognised although no cell is a GFM separator cell" if want else
                                                                                       "recognised although every cell is a GFM separator cell"),
                                              "line": line, "result": res}, {"kind": "table", "line": line})
    M.sample({"rows": rows})


def gen_tag_line(r):
    """-> (line, [(column, name)])"""
    ind = r.choice(["", " ", "  ", "\t"])
    parts = [ind]
    tags = []
    for _ in range(r.randint(0, 5)):
        filler = r.choice(["", " ", "  ", "text ", "\U0001F600 ", "é漢 ", "` ", "x ` y ", "(", "@notquoted "])
        parts.append(filler)
        name = "@" + "".join(r.choice("abcXYZ09_-:.é\U0001F600#") for _ in range(r.randint(1, 5)))
        col = len("".join(parts)) + 2
        parts.append("`" + name + "`")
        tags.append((col, name))
        parts.append(r.choice([" ", "", ", "]))
    parts.append(r.choice(["", " trailing", " @x"]))
    return "".join(parts) + "\n", tags


def check_tags(seed, i, M):
    r = rng(seed, ID, "tags", i)
    line, want = gen_tag_line(r)
    m = GherkinInMarkdownTokenMatcher(r.choice(["en", "fr", "ja"]))
    res, t = call(m, "match_TagLine", line)
    M.count("tag_line_checks")
    M.case(h64(["tags", line]))
    case = {"kind": "tags", "seed": seed, "index": i, "line": line}
    if res is not bool(want):
        M.violation("C19.tags", {"what": "tag line %s" % ("not recognised" if want else "recognised without a backtick-quoted tag"), "line": line, "result": res}, case)
        return
    if want:
        got = [(x["column"], x["text"]) for x in t.matched_items]
        M.count("tags_compared", len(want))
        if got != want or t.matched_type != "TagLine":
            M.violation("C19.tags", {"what": "tag names/columns differ from the backtick-quoted '@' words and their positions", "line": line,
                                     "got": got, "want": want}, case)
    if i % 997 == 0:
        M.sample({"line": line, "tags": want})


def run_shard(spec, M):
    f = spec["family"]
    if f == "titles":
        for d in spec["dialects"]:
            check_titles(d, M, spec.get("unicode"))
        M.sample({"dialects": spec["dialects"], "line_like": "  ### <keyword>: title"})
    elif f == "steps":
        for d in spec["dialects"]:
            check_steps(d, M)
    elif f == "tables":
        check_tables(M)
    else:
        for i in range(spec["start"], spec["start"] + spec["n"]):
            check_tags(spec["seed"], i, M)


def replay(case, M):
    k = case["kind"]
    if k == "title":
        check_titles(case["dialect"], M, False)
    elif k == "step":
        check_steps(case["dialect"], M)
    elif k == "table":
        check_tables(M)
    else:
        check_tags(case["seed"], case["index"], M)


def finish(M, tier):
    return {"exhaustive": True, "exhaustive_subspace": "80 dialects x title keywords x depth 0..7 x blank/no blank x 3 indents x 3 titles; step keywords x 4 bullets x 3 spacings x 2 indents; table indentation 0..8 x 11 rows",
            "dialects_covered": len(M.hists.get("dialects", {}))}
