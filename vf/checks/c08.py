"""C08 — pickle tags are the feature, rule, scenario and examples tags, in that order."""
from ._pickle_template import make

ID = "C08"
LEVEL = "exploration"
RULE = ("Same inputs as C06 with 0..3 tags (duplicates included) on each of the four levels, several rules, scenarios and "
        "examples blocks; the tags of every pickle (name, astNodeId, order, repetitions) must equal the reference compiler R4, and "
        "compile must not modify its input (tag-list aliasing).  Distinct = hash of the AST / source.")
ASSUMPTIONS = ["R4 reproduces all 41 golden .pickles.ndjson files"]
DECIDING = ["compile_calls", "pickles_compared", "documents_parsed"]
plan, run_shard, replay, finish = make(ID, RULE, hostile_names=False)
