"""Helpers shared by the checks."""
from __future__ import annotations

import hashlib
import random

from .. import observe
from ..common import h64, short


def rng(*parts):
    """Deterministic Random from any printable parts (VERIF_SEED, family, shard, case index)."""
    s = "|".join(str(p) for p in parts)
    return random.Random(int.from_bytes(hashlib.blake2b(s.encode(), digest_size=8).digest(), "big"))


def shards(family, total, per_shard, seed, **extra):
    """Split `total` cases of a family into shard specs of at most `per_shard` cases."""
    out = []
    k = 0
    start = 0
    while start < total:
        n = min(per_shard, total - start)
        spec = {"family": family, "n": n, "start": start, "seed": seed, "shard": k}
        spec.update(extra)
        out.append(spec)
        start += n
        k += 1
    return out


PARSE_MONITORS = [
    ("G1", observe.g1_typed_outcome),
    ("G2", observe.g2_match_budget),
    ("G3", observe.g3_line_accounting),
    ("G3q", observe.queue_discipline),
    ("G4", observe.g4_derivation),
    ("G8", observe.g8_error_list),
    ("G13", observe.g13_fresh_state),
]


def apply_parse_monitors(o, M, case, deciding, matcher=None, skip=()):
    """Evaluate the always-on monitors over one observed parse.  Monitors in `deciding`
    produce violations; the others only count (advisory).  Returns True if any deciding
    monitor fired."""
    fired = False
    mech = observe.f1_mechanism(o)
    if o.log is not None:
        M.count("parses_observed")
        M.count("scanner_reads", len(o.log.reads))
        M.count("builder_events", len(o.log.events))
        M.count("matcher_calls", o.log.n_match)
        if o.log.match_calls:
            M.maximum("max_matcher_calls_per_line", max(o.log.match_calls.values()))
    for gid, fn in PARSE_MONITORS:
        if gid in skip:
            continue
        if gid == "G13":
            res = fn(o, matcher)
        else:
            res = fn(o)
        M.count(gid + ".evaluated")
        for mid, detail in res:
            if gid in deciding:
                detail = dict(detail)
                M.violation(mid, detail, case, mechanism=mech)
                fired = True
            else:
                M.count("advisory." + mid)
    if o.status == "ok" and not isinstance(o.ast, dict):
        # parse "succeeded" without a document: an observed outcome of the code under test, whatever the check is about
        M.violation("G1", {"what": "Parser.parse returned %r instead of a document" % (o.ast,)}, case, mechanism=mech)
        return True
    if o.status == "ok" and isinstance(o.source, str) and "G5" not in skip and mech is None:
        res = observe.g5_location_slices(o.ast, o.source, M)
        M.count("G5.evaluated")
        for mid, detail in res:
            if "G5" in deciding:
                M.violation(mid, detail, case)
                fired = True
            else:
                M.count("advisory." + mid)
    return fired


def cover_transitions(o, M):
    if o.log is not None:
        for k in observe.transition_keys(o.log):
            M.cover("transitions", k)


def outcome_key(o):
    if o.status == "ok":
        return "accepted"
    if o.status == "crash":
        return "crash:" + type(o.exc).__name__
    return "%s:%d" % (o.status, len(o.errors))


def run_repo_tests_under_monitors(M, deciding):
    """W0: the repository's own 30 tests with the probes installed and the monitors evaluated
    after every test.  A monitor firing there is either too strict or a defect the tests do not assert."""
    import json
    import os
    import subprocess
    import sys
    import tempfile
    from ..common import REPO, VERIF_DIR
    out = tempfile.mktemp(prefix="vf-w0-", suffix=".json")
    env = dict(os.environ, PYTHONPATH=VERIF_DIR, VF_W0_OUT=out, PYTHONDONTWRITEBYTECODE="1")
    p = subprocess.run([sys.executable, "-B", "-m", "pytest", "-q", "-p", "no:cacheprovider", "-p", "vf.pytest_plugin", "python/test"],
                       cwd=REPO, env=env, capture_output=True, text=True, timeout=900)
    try:
        res = json.load(open(out))
        os.remove(out)
    except Exception:
        M.inconc("W0: the repository's tests could not be run under the monitors: %s" % (p.stdout + p.stderr)[-300:])
        return
    M.count("W0.tests_run", res["counts"]["tests"])
    M.count("W0.parses_observed", res["counts"]["parses"])
    for f in res["fired"]:
        if f["monitor"] in deciding:
            M.violation(f["monitor"], dict(f["detail"] if isinstance(f["detail"], dict) else {"detail": f["detail"]}, test=f["test"], workload="W0 repository tests"),
                        {"kind": "w0", "test": f["test"]})
        else:
            M.count("advisory.W0." + f["monitor"])


class ReusedEnv:
    """One Parser (with its AstBuilder and IdGenerator) and one explicitly passed TokenMatcher reused
    for all cases of a shard, with state-perturbing documents (vf/perturb.py: rejected documents, dialect
    switches, documents ending inside an indented doc string, parses abandoned while look-ahead tokens are
    buffered, in collecting and stop-at-first-error mode) parsed in between.  Whatever an earlier parse left
    behind must not show in the next one — under any property."""

    def __init__(self, r, default="en", p_perturb=0.5):
        from gherkin.parser import Parser
        from gherkin.ast_builder import AstBuilder
        from gherkin.token_matcher import TokenMatcher
        from gherkin.stream.id_generator import IdGenerator
        from gherkin.errors import ParserError
        self.r = r
        self.idgen = IdGenerator()
        self.parser = Parser(AstBuilder(self.idgen))
        self.matcher = TokenMatcher(default)
        self.err = ParserError
        self.p = p_perturb

    def perturb(self, M):
        from ..perturb import POOL, NAMES
        if self.r.random() < self.p:
            name = self.r.choice(NAMES)
            self.parser.stop_at_first_error = self.r.random() < 0.4
            try:
                src = POOL[name]
                if self.r.random() < 0.3:
                    from gherkin.token_scanner import TokenScanner
                    src = TokenScanner(src)            # the other documented input form
                self.parser.parse(src, self.matcher)
            except self.err:
                pass
            except Exception:
                M.count("advisory.perturbing_document_raised_other_exception")
            M.hist("reuse.predecessor", name)
            M.count("reuse.perturbing_parses")

    def parse(self, text, M, stop=False):
        import copy
        self.perturb(M)
        M.count("parses_on_reused_objects")
        as_scanner = self.r.random() < 0.3
        if as_scanner:
            M.count("parses_on_reused_objects.from_scanner_object")
        o = observe.parse_observed(text, stop=stop, parser=self.parser, matcher=self.matcher, idgen=self.idgen, as_scanner=as_scanner)
        # a document that was returned earlier must not be changed by later parses on the same objects
        prev = getattr(self, "_held", None)
        if prev is not None:
            M.count("returned_documents_rechecked")
            if prev[0] != prev[1]:
                from ..docmodel import diff
                M.violation("G15", {"what": "a document returned by an earlier parse was modified by later parses on the same Parser/AstBuilder",
                                    "differences": short(diff(prev[1], prev[0])[:3], 300), "earlier_source": short(prev[2], 200)},
                            {"kind": "shard", "spec": getattr(self, "spec", None), "text": prev[2]})
        self._held = (o.ast, copy.deepcopy(o.ast), text) if o.status == "ok" else None
        return o
