"""C06 — one pickle per scenario and per example row, in document order."""
from ._pickle_template import make

ID = "C06"
LEVEL = "exploration"
RULE = ("AST dictionaries in the parser's shape (0..4 examples blocks per scenario: table-less, header-only, with body rows; "
        "step-less scenarios; outlines inside rules; several rules; feature-less) are generated directly, and W2 documents are "
        "parsed by the real parser; Compiler.compile must equal the reference compiler R4 in count, order, name, uri, language "
        "and astNodeIds.  Distinct = hash of the AST / source; all are non-trivial; shape classes are counted separately.")
ASSUMPTIONS = ["R4 reproduces all 41 golden .pickles.ndjson files (checked by setup_cmd and by C11's corpus family)",
               "header names are plain words here so that placeholder substitution (C09) cannot blur the name comparison"]
DECIDING = ["compile_calls", "pickles_compared", "documents_parsed"]
plan, run_shard, replay, finish = make(ID, RULE, hostile_names=False)
