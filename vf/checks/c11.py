"""C11 — ids are unique, dense, canonically ordered; every pickle reference resolves."""
from __future__ import annotations

from ..common import h64, short
from .base import rng, shards
from . import picklecheck as pc, doccheck
from .. import observe, refcompile, corpus, probe, noisy, workloads, docmodel

from gherkin.stream.gherkin_events import GherkinEvents

ID = "C11"
LEVEL = "exploration"
RULE = ("(a) W2 documents (tags, steps, rows and examples competing on the same scenario, tagged rules and features) parsed and "
        "compiled with a fresh generator: AST ids must be 0..k-1 in the canonical order R5 (children before parent; rows, steps, "
        "examples, tags, owner), pickle ids continue (steps before their pickle), all distinct, every astNodeIds/astNodeId resolves "
        "to a node of the right kind; the get_next_id wrapper logs who drew each id; (b) golden corpus ids; (c) streams of 2..6 "
        "sources (accepted and rejected mixed) through one GherkinEvents: all ids of the stream distinct, each document's ids equal "
        "its solo ids shifted by the number of ids drawn before it (draws counted by the wrapper, including those of rejected "
        "documents).  Distinct = hash of the source / stream."
        " Also: threshold and huge documents (ids crossing 10/100/1000), caller-supplied generators (ids starting at 1000, prefixed, descending, stepping) whose outputs must appear in the canonical order, and scripts/generate_events.py on several files (one stream: distinct ids, equal to the in-process stream).")
ASSUMPTIONS = ["R5 reproduces the ids of all 41 golden .ast.ndjson/.pickles.ndjson files (setup_cmd and family (b))"]
DECIDING = ["documents_parsed", "ids_checked", "references_resolved", "streams_checked", "IdGenerator.draws_logged"]


def plan(tier, seed):
    q = tier == "quick"
    specs = shards("docs", 3000 if q else 150000, 250 if q else 4000, seed)
    specs += shards("streams", 500 if q else 20000, 50 if q else 1000, seed)
    specs += shards("retained", 300 if q else 12000, 50 if q else 1000, seed)
    specs += shards("corpus", 1, 1, seed)
    specs += [{"family": "cli", "seed": seed, "n": 1}]
    specs += [{"family": "thresholds", "seed": seed, "n": 1, "part": k, "parts": 8, "tier": tier} for k in range(8)]
    return specs


def all_ids(o):
    out = []
    if isinstance(o, dict):
        for k, v in o.items():
            if k == "id":
                out.append(v)
            else:
                out += all_ids(v)
    elif isinstance(o, list):
        for x in o:
            out += all_ids(x)
    return out


def check_refs(ast, pickles, M, case):
    kinds = refcompile.node_kinds(ast)
    bad = []
    n = 0
    for p in pickles:
        ids = p["astNodeIds"]
        n += len(ids)
        if not ids or kinds.get(ids[0]) != "scenario" or (len(ids) > 1 and kinds.get(ids[1]) != "example-row") or len(ids) > 2:
            bad.append(("pickle", ids, [kinds.get(i) for i in ids]))
        for s in p["steps"]:
            sid = s["astNodeIds"]
            n += len(sid)
            if not sid or kinds.get(sid[0]) != "step" or (len(sid) > 1 and kinds.get(sid[1]) != "example-row") or len(sid) > 2:
                bad.append(("step", sid, [kinds.get(i) for i in sid]))
            if len(sid) > 1 and (len(ids) < 2 or sid[1] != ids[1]):
                bad.append(("step row != pickle row", sid, ids))
        for t in p["tags"]:
            n += 1
            if kinds.get(t["astNodeId"]) != "tag":
                bad.append(("tag", t["astNodeId"], kinds.get(t["astNodeId"])))
    M.count("references_resolved", n)
    if bad:
        M.violation("G6.refs", {"what": "pickle reference does not resolve to an AST node of the right kind", "items": bad[:3]}, case)


def check_document(text, M, case):
    M.case(h64(text))
    with probe.observing(ids=True) as obs:
        o = observe.parse_observed(text)
        if o.status != "ok":
            M.count("advisory.generated_document_rejected")
            return
        M.count("documents_parsed")
        draws_ast = list(obs.ids)
        st, pickles, mutated, doc = observe.compile_observed(o.ast, idgen=o.idgen)
        draws = list(obs.ids)
    M.count("IdGenerator.draws_logged", len(draws))
    if st != "ok":
        M.violation("C11.crash", {"what": "exception escaped Compiler.compile", **pickles}, case,
                    mechanism=pc.D1 if pickles.get("origin", "").endswith("_interpolate") else None)
        return
    order = refcompile.ref_ids(o.ast)
    ids = [n.get("id") for n in order]
    M.count("ids_checked", len(ids))
    want = [str(i) for i in range(len(ids))]
    if ids != want or sorted(all_ids(o.ast), key=lambda x: int(x) if str(x).isdigit() else -1) != want:
        who = [(v, fn) for v, fn, _ in draws_ast][:40]
        M.violation("C11.ast_ids", {"what": "AST ids are not 0..k-1 in the canonical order", "ids_in_canonical_walk": ids[:30],
                                    "draw_log": who}, case)
    k = len(ids)
    pids = []
    for p in pickles:
        pids += [s["id"] for s in p["steps"]] + [p["id"]]
    M.count("ids_checked", len(pids))
    if pids != [str(i) for i in range(k, k + len(pids))]:
        M.violation("C11.pickle_ids", {"what": "pickle ids do not continue the sequence (steps before their pickle)", "got": pids[:20], "start": k}, case)
    allids = all_ids(o.ast) + pids
    if len(set(allids)) != len(allids):
        M.violation("G6.unique", {"what": "an id was handed out twice"}, case)
    check_refs(o.ast, pickles, M, case)
    M.hist("draw_sites", ",".join(sorted(set(fn for _, fn, _ in draws))))


class SeqGen:
    """A caller-supplied id generator (same protocol as gherkin.stream.id_generator.IdGenerator: get_next_id() -> str)
    whose ids are not 0,1,2,..: prefix + (start + step * n)."""

    def __init__(self, prefix="", start=0, step=1):
        self.prefix, self.start, self.step, self.n = prefix, start, step, 0

    def value(self, i):
        return "%s%d" % (self.prefix, self.start + self.step * i)

    def get_next_id(self):
        v = self.value(self.n)
        self.n += 1
        return v


class ListGen(list):
    """Another legitimate generator: it records what it hands out in itself (a list) — so it is *falsy* until the first id
    has been drawn, and has a length.  Same numbering interface as SeqGen for the checks."""

    def __init__(self, prefix="", start=0, step=1):
        super().__init__()
        self.prefix, self.start, self.step = prefix, start, step

    @property
    def n(self):
        return len(self)

    def value(self, i):
        return "%s%d" % (self.prefix, self.start + self.step * i)

    def get_next_id(self):
        v = self.value(len(self))
        self.append(v)
        return v


GEN_SHAPES = [("", 1000, 1), ("id-", 0, 1), ("", 5000, -1), ("x", 7, 13), ("", 10, 10), ("0", 0, 1), ("list", "rec-", 0, 1), ("list", "", 300, 1)]


def check_custom_generator(text, shape, M, case):
    """Parser + compiler sharing a caller-supplied generator: ids are exactly the generator's outputs, in the canonical
    draw order, all distinct; references resolve; pickles equal the reference compiler's."""
    from gherkin.parser import Parser
    from gherkin.ast_builder import AstBuilder
    from gherkin.pickles.compiler import Compiler
    from gherkin.errors import ParserError
    g = ListGen(*shape[1:]) if shape[0] == "list" else SeqGen(*shape)
    M.case(h64(["customgen", shape, text]))
    try:
        ast = Parser(AstBuilder(g)).parse(text)
    except ParserError:
        return
    M.count("custom_generator_documents")
    ids = [n.get("id") for n in refcompile.ref_ids(ast)]
    k = len(ids)
    M.count("ids_checked", k)
    if ids != [g.value(i) for i in range(k)] or g.n != k:
        M.violation("C11.custom", {"what": "with a caller-supplied generator the AST ids are not the generator's outputs in the canonical order",
                                   "shape": shape, "ids": ids[:12], "expected": [g.value(i) for i in range(min(k, 12))], "draws": g.n}, case)
        return
    doc = dict(ast, uri="u")
    want = refcompile.ref_compile(doc, "u", (lambda c=[k]: (c.__setitem__(0, c[0] + 1), g.value(c[0] - 1))[1]))
    try:
        got = Compiler(g).compile(doc)
    except Exception as e:
        M.violation("C11.custom", {"what": "compile raised with a caller-supplied generator", "error": repr(e)[:160], "shape": shape}, case)
        return
    if got != want:
        M.violation("C11.custom", {"what": "with a caller-supplied generator the pickles (ids, references) differ from the reference compiler",
                                   "shape": shape, "got": short(got, 200), "want": short(want, 200)}, case)
        return
    check_refs(ast, got, M, case)
    allids = ids + [s["id"] for p in got for s in p["steps"]] + [p["id"] for p in got]
    if len(set(allids)) != len(allids):
        M.violation("G6.unique", {"what": "an id was handed out twice (caller-supplied generator)", "shape": shape}, case)


def run_cli(seed, M):
    """Several files on one scripts/generate_events.py command line are one stream: ids distinct across the whole output,
    dense when every file is accepted, and equal to what one in-process GherkinEvents yields."""
    import json
    import os
    import subprocess
    import sys
    from ..common import PY_ROOT
    from gherkin.stream.source_events import source_event
    r = rng(seed, ID, "cli")
    paths = []
    for k in range(5):
        text = make_source(r) if k != 2 else "Feature: rejected\n  junk\n"
        try:
            data = text.encode("utf8")
        except UnicodeEncodeError:
            data = b"Feature: f\n  Scenario: s\n    Given x\n"
        p = os.path.abspath("cli%d.feature" % k)
        with open(p, "wb") as f:
            f.write(data)
        paths.append(p)
    env = dict(os.environ, PYTHONPATH=PY_ROOT, PYTHONDONTWRITEBYTECODE="1", PYTHONIOENCODING="utf-8")
    for flags, opts in (([], (True, True, True)), (["--no-source"], (False, True, True))):
        pr = subprocess.run([sys.executable, "-B", "-m", "scripts.generate_events"] + flags + paths, cwd=PY_ROOT, env=env, capture_output=True, timeout=300)
        M.count("cli_runs")
        M.case(h64(["cli", flags]))
        case = {"kind": "cli"}
        if pr.returncode != 0:
            M.violation("C11.cli", {"what": "scripts.generate_events failed", "stderr": pr.stderr.decode("utf8", "replace")[-300:]}, case)
            continue
        got = [json.loads(l) for l in pr.stdout.decode("utf8").split("\n") if l.strip()]
        ids = []
        for e in got:
            if "source" not in e:
                ids += all_ids(e)
        M.count("ids_checked", len(ids))
        if len(set(ids)) != len(ids):
            dup = sorted({i for i in ids if ids.count(i) > 1}, key=lambda x: int(x) if x.isdigit() else -1)[:6]
            M.violation("C11.cli", {"what": "ids are not pairwise distinct across the files of one generate_events run", "duplicates": dup, "files": len(paths)}, case)
            continue
        ge = GherkinEvents(GherkinEvents.Options(*opts))
        want = []
        for p in paths:
            want += list(ge.enum(source_event(p)))
        if got != json.loads(json.dumps(want)):
            M.violation("C11.cli", {"what": "generate_events output differs from one in-process stream over the same files (running id counter)"}, case)
    for p in paths:
        os.remove(p)


def shift(o, off):
    if isinstance(o, dict):
        return {k: (str(int(v) + off) if k in ("id", "astNodeId") else
                    ([str(int(x) + off) for x in v] if k == "astNodeIds" else shift(v, off))) for k, v in o.items()}
    if isinstance(o, list):
        return [shift(x, off) for x in o]
    return o


def make_source(r):
    c = r.random()
    if c < 0.45:
        return docmodel.render(r, size="small", ascii_only=True).text
    if c < 0.6:
        return workloads.faulted(r, docmodel.render(r, size="small", ascii_only=True))[0]
    if c < 0.8:
        return noisy.text_of(noisy.gen_any(r, 12))
    if c < 0.9:
        return ""
    return "Feature: f\n  @t\n  Scenario Outline: o <a>\n    Given <a>\n    @e\n    Examples:\n      | a |\n      | 1 |\n      | 2 |\n"


def check_stream(sources, M, case):
    M.case(h64(sources))
    M.count("streams_checked")
    opts = (True, True, True)
    ge = GherkinEvents(GherkinEvents.Options(*opts))
    seen = []
    with probe.observing(ids=True) as obs:
        for n, src in enumerate(sources):
            before = len(obs.ids)
            # equal texts arrive under the same uri (a file that is sent again), different texts under different uris
            uri = "s%d" % sources.index(src)
            st, envs, opened_, _ = observe.enum_observed(src, uri=uri, events=ge)
            if st != "ok":
                if src in opened_:
                    return   # finding F1 (C01/C17), not an id question
                M.violation("C11.stream_crash", {"what": "exception escaped GherkinEvents.enum", **envs}, case)
                return
            solo_st, solo, _, _ = observe.enum_observed(src, uri=uri, options=opts)
            if solo_st != "ok":
                return
            # solo run draws inside the same observing block: exclude its draws from the offset
            mine = [d for d in obs.ids[before:] if d[2] == id(ge.id_generator)]
            offset = sum(1 for d in obs.ids[:before] if d[2] == id(ge.id_generator))
            M.count("IdGenerator.draws_logged", len(mine))
            body = [e for e in envs if "source" not in e]
            solo_body = [e for e in solo if "source" not in e]
            if body != shift(solo_body, offset):
                M.violation("C11.stream_offset", {"what": "ids of a document in a stream are not its solo ids shifted by the draws before it",
                                                  "position": n, "offset": offset, "got": short(body, 300), "want": short(shift(solo_body, offset), 300)}, case)
                return
            seen += all_ids(body)
    M.count("ids_checked", len(seen))
    if len(set(seen)) != len(seen):
        M.violation("G6.unique", {"what": "an id was handed out twice within one stream"}, case)


def check_retained(sources, M, case):
    """One id generator, one Parser and one Compiler for several documents, every result kept until the end (a caller that
    collects documents and pickle lists): all ids ever handed out are pairwise distinct, and every pickle still refers to
    nodes of its own document."""
    from gherkin.parser import Parser
    from gherkin.ast_builder import AstBuilder
    from gherkin.pickles.compiler import Compiler
    from gherkin.stream.id_generator import IdGenerator
    from gherkin.errors import ParserError
    g = IdGenerator()
    parser, comp = Parser(AstBuilder(g)), Compiler(g)
    kept = []
    M.case(h64(["retained", sources]))
    for n, text in enumerate(sources):
        try:
            ast = parser.parse(text)
        except ParserError:
            continue
        except Exception:
            return                  # C01's business
        doc = dict(ast, uri="features/r%d.feature" % n)
        try:
            pickles = comp.compile(doc)
        except Exception:
            return
        kept.append((ast, pickles))
    M.count("retained_sequences")
    seen = []
    for ast, pickles in kept:
        seen += [nd.get("id") for nd in refcompile.ref_ids(ast)]
        seen += [p.get("id") for p in pickles] + [s.get("id") for p in pickles for s in p["steps"]]
        check_refs(ast, pickles, M, case)
    M.count("ids_checked", len(seen))
    if len(set(seen)) != len(seen):
        M.violation("G6.unique", {"what": "an id occurs twice among the documents and pickle lists a caller kept from one generator/Parser/Compiler",
                                  "documents": len(kept)}, case)


def run_shard(spec, M):
    fam, seed = spec["family"], spec["seed"]
    if fam == "docs":
        for i in range(spec["start"], spec["start"] + spec["n"]):
            kw = {"size": "huge", "special": 0.2} if i % 60 == 0 else {}        # ids crossing 1000
            R = doccheck.make_doc(seed, "C11", i, ascii_only=True, **kw)
            check_document(R.text, M, {"kind": "text", "text": R.text})
            if i % 3 == 0 and len(R.text) < 20000:
                shape = GEN_SHAPES[(i // 3) % len(GEN_SHAPES)]
                check_custom_generator(R.text, shape, M, {"kind": "customgen", "text": R.text, "shape": list(shape)})
            if i % 499 == 0:
                M.sample({"text": short(R.text, 300)})
    elif fam == "cli":
        run_cli(seed, M)
    elif fam == "thresholds":
        from .. import thresholds
        for dim, n in thresholds.cases(spec["tier"], spec["part"], spec["parts"]):
            check_document(thresholds.build(dim, n).text, M, {"kind": "text", "text": "threshold document %s n=%d" % (dim, n), "dim": dim, "n": n})
    elif fam == "retained":
        for i in range(spec["start"], spec["start"] + spec["n"]):
            r = rng(seed, ID, "retained", i)
            sources = [make_source(r) for _ in range(r.randint(2, 6))]
            check_retained(sources, M, {"kind": "retained", "sources": sources})
    elif fam == "streams":
        for i in range(spec["start"], spec["start"] + spec["n"]):
            r = rng(seed, ID, "stream", i)
            sources = [make_source(r) for _ in range(r.randint(2, 6))]
            if r.random() < 0.4:
                sources.insert(r.randint(1, len(sources)), sources[r.randrange(len(sources))])        # the same source once more
                M.count("streams_with_a_repeated_source")
            check_stream(sources, M, {"kind": "stream", "sources": sources})
    else:
        for g in corpus.good():
            check_document(g["text"], M, {"kind": "text", "text": g["text"]})
            ast = g["ast"][0]["gherkinDocument"]
            ids = [n["id"] for n in refcompile.ref_ids(ast)]
            M.count("corpus_golden_ids_checked", len(ids))
            if ids != [str(i) for i in range(len(ids))]:
                M.inconc("R5 does not reproduce the golden ids of %s" % g["path"])


def replay(case, M):
    if case.get("kind") == "cli":
        run_cli(0, M)
        return
    if case.get("kind") == "customgen":
        check_custom_generator(case["text"], tuple(case["shape"]), M, case)
        return
    if case.get("dim"):
        from .. import thresholds
        check_document(thresholds.build(case["dim"], case["n"]).text, M, case)
    elif case["kind"] == "retained":
        check_retained(case["sources"], M, case)
    elif case["kind"] == "stream":
        check_stream(case["sources"], M, case)
    else:
        check_document(case["text"], M, case)
