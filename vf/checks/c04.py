"""C04 — every reported location is the exact 1-based line and code-point column."""
from __future__ import annotations

import itertools

from .. import observe, corpus, noisy, docmodel, workloads, refcells
from ..common import h64, short
from .base import rng, shards, apply_parse_monitors
from . import doccheck

ID = "C04"
LEVEL = "exploration"
RULE = ("(a) R3 documents: every location of the real AST must equal the position at which the renderer wrote the "
        "element (code points, lines counted by LF only; tabs, non-BMP and combining characters, escaped cells, CRLF); "
        "(b) location-slice monitor G5 on every accepted document (generated, corpus, noisy, fault-injected): reading the "
        "source at the location gives back keyword / tag / raw cell / delimiter; (c) error locations: the W4 simulator "
        "predicts line and column of every error of noisy documents, G8 checks message prefix == location, column of the "
        "first non-blank character, EOF one line past the last; bad-corpus locations vs golden files; (d) rows over the "
        "splitter's character classes parsed as tables, cell columns vs the reference splitter R6.  Distinct = source hash."
        " Also: the reused-objects, boundary and threshold families of C03; a TokenScanner object parsed twice must give the empty document or exact locations again.")
ASSUMPTIONS = doccheck and [
    "renderer positions are recorded while the text is built (not re-derived by parsing)",
    "columns are counted in code points of the physical line; lines end at LF only",
]
DECIDING = ["C04.locations_compared", "G5.locations_sliced", "G8.evaluated", "sim_error_lists_compared", "row_columns_compared"]
G_DECIDING = {"G5", "G8"}


def plan(tier, seed):
    q = tier == "quick"
    specs = shards("docs", 4000 if q else 250000, 250 if q else 4000, seed)
    specs += shards("reused", 1500 if q else 80000, 250 if q else 4000, seed)
    specs += shards("boundaries", 480 if q else 24000, 30 if q else 600, seed)
    specs += [{"family": "thresholds", "seed": seed, "n": 1, "part": k, "parts": 16, "tier": tier} for k in range(16)]
    specs += shards("noisy", 4000 if q else 150000, 500 if q else 5000, seed)
    specs += shards("noisy_stretched", 1500 if q else 60000, 500 if q else 5000, seed)
    specs += shards("noisy_dialects", 2400 if q else 80000, 600 if q else 5000, seed)
    specs += shards("faulted", 2000 if q else 80000, 250 if q else 4000, seed)
    specs += shards("rows", 6 ** 5 if q else 6 ** 7, 6 ** 4 if q else 6 ** 5, seed, L=5 if q else 7)
    specs += shards("corpus", 1, 1, seed)
    specs.append({"family": "stream_edges", "seed": seed, "n": 1})
    specs.append({"family": "w0", "seed": seed, "n": 1})
    return specs


ROW_ALPHABET = ["|", "\\", "n", " ", "x", "\U0001F600"]


def run_shard(spec, M):
    fam, seed = spec["family"], spec["seed"]
    if fam in ("docs", "reused", "boundaries"):
        reused = doccheck.Reused(rng(seed, ID, "reused", spec["shard"])) if fam == "reused" else None
        if reused is not None:
            reused.spec = spec
        for i in range(spec["start"], spec["start"] + spec["n"]):
            kw = {"size": "huge" if i % 30 == 0 else ("small" if i % 2 else "medium"), "special": 0.35, "deep": True, "rare": False} if fam == "boundaries" else {"allow_default": True}
            R = doccheck.make_doc(seed, fam, i, **kw)
            case = {"kind": "doc", "family": fam, "index": i, "seed": seed, "text": R.text if len(R.text) < 20000 else R.text[:20000], "kw": kw}
            doccheck.check_doc(R, M, case, "C04", reused=reused)
            if i % 25 == 0:
                scanner_twice(R.text, M, case)
            if i % 499 == 0:
                M.sample({"dialect": R.dialect, "text": short(R.text, 300)})
    elif fam == "thresholds":
        from .. import thresholds
        for dim, n in thresholds.cases(spec["tier"], spec["part"], spec["parts"]):
            R = thresholds.build(dim, n)
            M.hist("threshold_dims", dim)
            doccheck.check_doc(R, M, {"kind": "threshold", "dim": dim, "n": n}, "C04")
    elif fam in ("noisy", "noisy_stretched", "noisy_dialects"):
        for i in range(spec["start"], spec["start"] + spec["n"]):
            r = rng(seed, ID, fam, i)
            L = noisy.gen(r) if fam == "noisy" else noisy.gen_stretched(r)
            if fam == "noisy_dialects":
                from .. import dialects as _dl
                names = [n for n in sorted(_dl.master()) if n != "en"]
                L = noisy.translate(noisy.gen(r, 20), names[i % len(names)], r)
                if L is None:
                    M.count("noisy_dialects.skipped_ambiguous")
                    continue
            nl = r.choice(["\n", "\n", "\r\n"])
            text = noisy.text_of(L, nl=nl, final=r.random() < 0.8 or noisy.pl_of(L[-1][1]).text == "")
            case = {"kind": "noisy", "L": L, "nl": nl, "text": text}
            check_noisy(L, text, M, case)
    elif fam == "faulted":
        for i in range(spec["start"], spec["start"] + spec["n"]):
            r = rng(seed, ID, fam, i)
            R = docmodel.render(r, size=r.choice(["small", "medium"]))
            text, ops = workloads.faulted(r, R)
            case = {"kind": "text", "family": fam, "text": text}
            M.case(h64(text))
            o = observe.parse_observed(text)
            M.hist("faulted.outcome", o.status)
            apply_parse_monitors(o, M, case, G_DECIDING)
    elif fam == "stream_edges":
        # byte-order marks, zero-width blanks, separators and controls at the start of the document / of lines / in words,
        # and the same in front of generated documents: parse and stream report the same positions
        from . import c16
        from .doccheck import stream_agrees
        texts = [c16.edge_document(i) for i in range(len(c16.EDGE_CHARS) * len(c16.EDGE_BASES) * 4)]
        for k, ch in enumerate(c16.EDGE_CHARS):
            R = doccheck.make_doc(seed, "C04e", k, size="small")
            texts += [ch + R.text, R.text + ch, "\n" + ch + R.text]
        for text in texts:
            M.case(h64(text))
            M.count("stream_edge_documents")
            for stop in (False, True):
                o = observe.parse_observed(text, stop=stop)
                apply_parse_monitors(o, M, {"kind": "text", "family": fam, "text": text}, G_DECIDING)
            o = observe.parse_observed(text)
            stream_agrees(text, o, M, {"kind": "text", "family": fam, "text": text}, "C04")
    elif fam == "rows":
        L = spec["L"]
        for k in range(spec["start"], spec["start"] + spec["n"]):
            w = []
            x = k
            for _ in range(L):
                w.append(ROW_ALPHABET[x % 6])
                x //= 6
            row = "  |" + "".join(w)
            check_row(row, M)
    elif fam == "w0":
        from .base import run_repo_tests_under_monitors
        run_repo_tests_under_monitors(M, G_DECIDING)
    elif fam == "corpus":
        for g in corpus.good():
            case = {"kind": "text", "family": "corpus", "text": g["text"]}
            M.case(h64(g["text"]))
            o = observe.parse_observed(g["text"])
            apply_parse_monitors(o, M, case, G_DECIDING)
        for b in corpus.bad():
            case = {"kind": "text", "family": "corpus-bad", "text": b["text"]}
            M.case(h64(b["text"]))
            o = observe.parse_observed(b["text"])
            apply_parse_monitors(o, M, case, G_DECIDING)
            want = [(e["parseError"]["source"]["location"], e["parseError"]["message"]) for e in b["errors"]]
            got = [(e["location"], e["message"]) for e in o.errors]
            M.count("corpus_error_locations_compared", len(want))
            if got != want:
                M.violation("C04.corpus", {"what": "error locations differ from the golden .errors.ndjson", "path": b["path"],
                                           "got": got[:3], "want": want[:3]}, case)


def scanner_twice(text, M, case):
    """The same TokenScanner object handed to parse twice: whatever the second parse returns (today: the empty document,
    because the scanner is exhausted) must carry exact locations — i.e. be empty or equal the first result."""
    from gherkin.parser import Parser
    from gherkin.token_scanner import TokenScanner
    from gherkin.errors import ParserError
    try:
        sc = TokenScanner(text)
        a = Parser().parse(sc)
        b = Parser().parse(sc)
    except ParserError:
        return
    except Exception:
        return          # F1-like inputs are decided elsewhere
    M.count("scanner_objects_parsed_twice")
    if "feature" in b:
        bad = observe.g5_location_slices(b, text) or (doccheck.strip(b) != doccheck.strip(a) and [("G5", {"what": "second parse differs"})])
        if bad:
            M.violation("C04.rescan", {"what": "a TokenScanner object parsed a second time yields locations that do not point into the source",
                                       "detail": bad[0][1]}, dict(case, rescan=True))


def check_noisy(L, text, M, case):
    M.case(h64(text))
    sim = noisy.simulate(L, False)
    o = observe.parse_observed(text, False)
    apply_parse_monitors(o, M, case, G_DECIDING)
    M.count("sim_error_lists_compared")
    M.count("sim_errors", len(sim["errors"]))
    if sorted(sim["errors"]) != sorted(o.err_messages()):
        M.violation("C04.sim", {"what": "error positions differ from the simulator's prediction",
                                "predicted": sim["errors"][:4], "got": o.err_messages()[:4]}, case)


def check_row(row, M):
    """A data table consisting of this one row; cell columns/values vs R6."""
    text = "Feature: f\n  Scenario: s\n    Given x\n" + row + "\n"
    M.case(h64(row))
    o = observe.parse_observed(text)
    case = {"kind": "row", "row": row, "text": text}
    want = refcells.ref_cells(row)
    if o.status != "ok":
        # a row that is not a table row here (cannot happen: it starts with a pipe) or another error
        M.violation("C04.row", {"what": "single-row table rejected", "errors": o.err_messages()[:2]}, case)
        return
    step = o.ast["feature"]["children"][0]["scenario"]["steps"][0]
    cells = step.get("dataTable", {"rows": [{"cells": []}]})["rows"][0]["cells"]
    got = [(c["location"]["column"], c["value"]) for c in cells]
    M.count("row_columns_compared", len(want))
    if got != want:
        M.violation("C04.row", {"what": "cell columns/values differ from the reference splitter", "row": row,
                                "got": got[:5], "want": want[:5]}, case)
    apply_parse_monitors(o, M, case, {"G5"}, skip=("G3", "G4", "G13", "G2"))


def replay(case, M):
    if case.get("kind") == "threshold":
        from .. import thresholds
        doccheck.check_doc(thresholds.build(case["dim"], case["n"]), M, case, "C04")
        return
    if case.get("kind") == "shard":
        run_shard(case["spec"], M)
        return
    k = case["kind"]
    if k == "doc":
        R = doccheck.make_doc(case["seed"], case["family"], case["index"], **case.get("kw", {}))
        doccheck.check_doc(R, M, case, "C04")
    elif k == "noisy":
        check_noisy([tuple(x) for x in case["L"]], case["text"], M, case)
    elif k == "row":
        check_row(case["row"], M)
    else:
        o = observe.parse_observed(case["text"])
        apply_parse_monitors(o, M, case, G_DECIDING)
