"""R1 — reference automaton derived from gherkin.berp (independent of parser.py).

The grammar is parsed into a Thompson NFA whose epsilon edges carry the
builder events (`start R` / `end R` for `!` rules) and the look-ahead hint of
hinted rules.  From it:

  * ref_step(q, kind, la)    the grammar's reading of one line of primary kind `kind`
  * expected_set(q)          token kinds acceptable at q
  * DerivationMonitor        online checker: accepts a builder-event trace iff it is a
                             derivation of the grammar
  * bisimulate(table)        compares a (state -> transitions) table with the automaton
"""
from __future__ import annotations

import re

from .common import BERP

KINDS = ["EOF", "Empty", "Comment", "TagLine", "FeatureLine", "RuleLine", "BackgroundLine",
         "ScenarioLine", "ExamplesLine", "StepLine", "DocStringSeparator", "TableRow",
         "Language", "Other"]


def _tokenize(s):
    return re.findall(r"#\w+|\w+|[()|?*+]", s)


def _parse_seq(toks, i):
    items = []
    while i < len(toks) and toks[i] not in (")", "|"):
        t = toks[i]
        if t == "(":
            alts = []
            i += 1
            while True:
                seq, i = _parse_seq(toks, i)
                alts.append(seq)
                if toks[i] == "|":
                    i += 1
                    continue
                assert toks[i] == ")"
                i += 1
                break
            atom = ("alt", alts)
        elif t.startswith("#"):
            atom = ("tok", t[1:])
            i += 1
        else:
            atom = ("rule", t)
            i += 1
        if i < len(toks) and toks[i] in "?*+":
            atom = (toks[i], atom)
            i += 1
        items.append(atom)
    return ("seq", items), i


class Grammar:
    def __init__(self, path=BERP):
        berp = open(path, encoding="utf-8-sig").read()
        hdr = re.search(r"\[(.*?)\n\]", berp, re.S).group(1)
        self.ignored = [x.strip().lstrip("#") for x in
                        re.search(r"IgnoredTokens -> (.*)", hdr).group(1).strip().split(",")]
        self.tokens = [x.strip().lstrip("#") for x in
                       re.search(r"Tokens -> (.*)", hdr).group(1).strip().split(",")]
        self.rules = {}
        self.order = []
        for line in berp.split("]", 1)[1].splitlines():
            line = line.strip()
            if not line or line.startswith("//"):
                continue
            m = re.match(r"(\w+)(!?)\s*(\[(.*?)\])?\s*:=\s*(.*)$", line)
            name, bang, _, hint, rhs = m.groups()
            self.rules[name] = (bool(bang), hint, rhs)
            self.order.append(name)
        self.ast = {n: _parse_seq(_tokenize(r[2]), 0)[0] for n, r in self.rules.items()}
        # NFA
        self.eps = {}
        self.tok = {}
        self.n = 0
        # top rule: start GherkinDocument, body, #EOF, end GherkinDocument
        # (the generated parsers build the EOF token before they end the top rule)
        top = self.order[0]
        x, y = self._build(self.ast[top])
        self.start = self._new()
        self._e(self.start, x, ("start", top, None))
        self.q0 = x                      # node reached after `start GherkinDocument`
        self.ACC = self._new()           # node reached after the EOF token
        self.tok[y].append((self.ACC, "EOF"))
        self.END = self._new()
        self._e(self.ACC, self.END, ("end", top))
        self._reach_cache = {}

    def _new(self):
        self.n += 1
        self.eps[self.n] = []
        self.tok[self.n] = []
        return self.n

    def _e(self, a, b, label=None):
        self.eps[a].append((b, label))

    def _build(self, node):
        k = node[0]
        if k == "seq":
            a = self._new()
            cur = a
            for it in node[1]:
                x, y = self._build(it)
                self._e(cur, x)
                cur = y
            return a, cur
        if k == "tok":
            a = self._new()
            b = self._new()
            self.tok[a].append((b, node[1]))
            return a, b
        if k == "rule":
            name = node[1]
            bang, hint, _ = self.rules[name]
            x, y = self._build(self.ast[name])
            a = self._new()
            b = self._new()
            self._e(a, x, ("start", name, hint) if bang else (("hint", name, hint) if hint else None))
            self._e(y, b, ("end", name) if bang else None)
            return a, b
        if k == "alt":
            a = self._new()
            b = self._new()
            for alt in node[1]:
                x, y = self._build(alt)
                self._e(a, x)
                self._e(y, b)
            return a, b
        if k in "?*+":
            x, y = self._build(node[1])
            a = self._new()
            b = self._new()
            self._e(a, x)                 # enter before skip
            if k in "*+":
                self._e(y, x)             # continue the loop before leaving it
            self._e(y, b)
            if k in "?*":
                self._e(a, b)
            return a, b
        raise AssertionError(k)

    # ---- reading one line
    def reach(self, q):
        """Token edges reachable from q through epsilon edges, in grammar (DFS) order:
        list of (kind, target node, events-along-the-path)."""
        r = self._reach_cache.get(q)
        if r is not None:
            return r
        out = []
        seen = set()

        def dfs(q, events):
            for (b, kind) in self.tok[q]:
                out.append((kind, b, tuple(events)))
            for (b, label) in self.eps[q]:
                key = (b, tuple(events))
                if key in seen:
                    continue
                seen.add(key)
                dfs(b, events + ([label] if label else []))

        dfs(q, [])
        self._reach_cache[q] = out
        return out

    @staticmethod
    def hint_target(h):
        return re.search(r"->#(\w+)", h).group(1)

    @staticmethod
    def hint_skip(h):
        return [x.strip().lstrip("#") for x in h.split("->")[0].split("|")]

    def ref_step(self, q, kind, la):
        """la: dict target-kind -> bool (what a look-ahead for that target would find).
        Returns (events, q') or None when the line cannot continue a sentence here."""
        cands = self.reach(q)

        def ok(c):
            for ev in c[2]:
                if ev[0] in ("start", "hint") and ev[2] and kind in self.hint_skip(ev[2]):
                    if not la.get(self.hint_target(ev[2]), False):
                        return False
            return True

        def conv(c):
            ev = [(e[0], e[1]) for e in c[2] if e[0] in ("start", "end")]
            return tuple(ev) + (("build",),), c[1]

        for c in cands:
            if c[0] == kind and ok(c):
                return conv(c)
        if kind != "EOF":
            for c in cands:
                if c[0] == "Other":
                    return conv(c)
            if kind in self.ignored:
                return ((("build",),), q)
        return None

    def expected_set(self, q):
        r = self.reach(q)
        s = set(c[0] for c in r)
        if not any(c[0] == "Other" for c in r):
            s |= set(self.ignored)
        return s

    def other_reachable(self, q):
        return any(c[0] == "Other" for c in self.reach(q))

    # ---- bisimulation against a transition table
    def bisimulate(self, table, la_target):
        """table: {state: ([(kind, la_id|None, events, target)], [expected kinds])}
        la_target: {la_id: target kind}.  Returns (pairs, checks, mismatches list)."""
        def tbl_step(s, kind, la):
            T, _ = table[s]
            for k, l, ev, tgt in T:
                if k == kind or (k == "Other" and kind != "EOF"):
                    if l is not None and not la.get(la_target[l], False):
                        continue
                    return tuple(tuple(e) for e in ev), tgt
            return None

        seen = {}
        todo = [(0, self.q0)]
        checks = 0
        mism = []
        while todo:
            s, q = todo.pop()
            if (s, q) in seen:
                continue
            seen[(s, q)] = 1
            if s not in table:
                mism.append(("missing-state", s))
                continue
            for kind in KINDS:
                for la0 in (False, True):
                    for la1 in (False, True):
                        la = {"ScenarioLine": la0, "ExamplesLine": la1}
                        a = tbl_step(s, kind, la)
                        b = self.ref_step(q, kind, la)
                        checks += 1
                        if (a is None) != (b is None):
                            mism.append(("acceptance", s, kind, la, a, b))
                            continue
                        if a is None:
                            if set(table[s][1]) != self.expected_set(q) or len(set(table[s][1])) != len(table[s][1]):
                                mism.append(("expected-set", s, table[s][1], sorted(self.expected_set(q))))
                            continue
                        if a[0] != b[0]:
                            mism.append(("events", s, kind, la, a[0], b[0]))
                        if a[1] == 34 or b[1] == self.ACC:
                            if not (a[1] == 34 and b[1] == self.ACC):
                                mism.append(("end", s, kind, a[1], b[1]))
                        else:
                            todo.append((a[1], b[1]))
        return len(seen), checks, mism, seen


class DerivationMonitor:
    """Online trace checker.  Feed events ('start', R) / ('end', R) / ('build', kind);
    `ok` turns False at the first event that no derivation of the grammar allows.
    The NFA is run as a recogniser over the event alphabet: labelled epsilon edges
    consume the matching start/end event, token edges consume `build kind`; Comment
    and Empty are additionally allowed as self loops where free text (#Other) is not
    reachable (the grammar's IgnoredTokens rule)."""

    def __init__(self, g: Grammar):
        self.g = g
        self.S = self._closure({g.start})
        self.ok = True
        self.why = None
        self.n = 0

    def _closure(self, S):
        g = self.g
        out = set(S)
        todo = list(S)
        while todo:
            q = todo.pop()
            for b, label in g.eps[q]:
                if (label is None or label[0] == "hint") and b not in out:
                    out.add(b)
                    todo.append(b)
        return out

    def feed(self, ev):
        if not self.ok:
            return
        self.n += 1
        g = self.g
        nxt = set()
        if ev[0] in ("start", "end"):
            for q in self.S:
                for b, label in g.eps[q]:
                    if label and label[0] == ev[0] and label[1] == ev[1]:
                        nxt.add(b)
        else:
            kind = ev[1]
            for q in self.S:
                for b, k in g.tok[q]:
                    if k == kind:
                        nxt.add(b)
            if not nxt and kind in g.ignored:
                if not any(g.other_reachable(q) for q in self.S):
                    nxt = set(self.S)
        if not nxt:
            self.ok = False
            self.why = "event #%d %r not allowed by the grammar here" % (self.n, ev)
            return
        self.S = self._closure(nxt)

    def accepted(self):
        """True iff the trace so far is a complete derivation (after end GherkinDocument)."""
        if not self.ok:
            return False
        return self.g.END in self.S


def grammar_reading(g: Grammar, kinds):
    """Run the reference automaton over a sequence of primary line kinds (no EOF included).
    -> (accepted, [kind each line was read as], events) ; look-ahead outcomes are computed
    from the sequence itself (skip Empty/Comment/TagLine until the target or anything else)."""
    q = g.q0
    read_as = []
    events = [("start", g.order[0])]
    seq = list(kinds) + ["EOF"]
    for i, kind in enumerate(seq):
        la = {}
        for target in ("ScenarioLine", "ExamplesLine"):
            j = i + 1
            res = False
            while j < len(seq):
                if seq[j] == target:
                    res = True
                    break
                if seq[j] not in ("Empty", "Comment", "TagLine"):
                    break
                j += 1
            la[target] = res
        step = g.ref_step(q, kind, la)
        if step is None:
            return False, read_as, events
        ev, q2 = step
        # which kind was consumed: explicit edge, free text, or ignored self loop
        cands = [c for c in g.reach(q) if c[1] == q2]
        if q2 == q and not any(c[0] == kind for c in g.reach(q)) and kind in g.ignored:
            read_as.append(kind)
        elif any(c[0] == kind for c in cands):
            read_as.append(kind)
        else:
            read_as.append("Other")
        for e in ev:
            events.append(e if e != ("build",) else ("build", read_as[-1]))
        q = q2
    events.append(("end", g.order[0]))
    return q == g.ACC, read_as[:-1], events
