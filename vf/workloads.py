"""Workload generators W3 (faulted documents), W5 (hostile raw strings), W6 (scaling families)."""
from __future__ import annotations

from . import dialects, docmodel

FRAGMENTS = (
    ["|", "\\", '"""', "```", "@", "#", "<", ">", ":", " ", "  ", "\t", "\n", "\n", "\n", "\r\n", "\r",
     "\\n", "\\|", "\\\\", "| a |", "| a | b |", "@tag", "@a b", "# language: ", "#language:", "language",
     "en", "fr", "zz", "no-such", "em-ojis", "Feature", "Feature:", "Scenario:", "Scenario Outline:",
     "Background:", "Rule:", "Examples:", "Given ", "When ", "Then ", "And ", "But ", "* ", "Given",
     "Fonctionnalité:", "Scénario:", "Soit ", "Egenskap:", "Gitt ", "機能:", "シナリオ:", "前提",
     "(", ")", "[", "]", "{", "}", ".", "*", "+", "?", "^", "$", "\\1", "\\g<0>", "(?P<x>", "a(b", "<a(b>",
     "<h>", "<<h>>", "\x00", "﻿", " ", " ", "\x85", "\x0b", "\x0c", "\x1c", "\x1d", "\x1e",
     " ", "　", "​", "᠎", "\U0001F600", "\U00010348", "́", "é", "ß", "Ж", "漢",
     "\ud800", "\udfff", "x", "y", "1", "0", "-", "_", "/", ".", "..", "\"", "'", "`", "\\\"\\\"\\\"", "\\`\\`\\`"]
)


def hostile(rnd, maxlen=200):
    """Random Unicode text over structural fragments; 0..maxlen fragments."""
    shape = rnd.random()
    if shape < 0.05:
        n = rnd.randint(0, 3)
    elif shape < 0.9:
        n = rnd.randint(1, min(40, maxlen))
    else:
        n = rnd.randint(min(40, maxlen), maxlen)
    parts = []
    newline_bias = rnd.random()
    for _ in range(n):
        if rnd.random() < newline_bias * 0.4:
            parts.append("\n" + " " * rnd.choice([0, 0, 2, 4]))
        if rnd.random() < 0.04:
            parts.append(chr(rnd.choice([rnd.randrange(0x20), rnd.randrange(0x20, 0x3000), rnd.randrange(0x10000, 0x10400)])))
        else:
            parts.append(rnd.choice(FRAGMENTS))
    return "".join(parts)


def structured_hostile(rnd):
    """A well-formed skeleton with hostile text in every slot — reaches the compiler."""
    t = lambda: hostile(rnd, 6).replace("\n", " ").replace("\r", " ")
    hdr = [rnd.choice(["a", "a(b", "a.b", "a\\|b", "x*", "[", "$", "\\", "h h", "", "a+", "(?i)a", "\\d", "é"]) for _ in range(rnd.randint(1, 3))]
    def row(vals):
        return "    | " + " | ".join(vals) + " |"
    lines = ["Feature: " + t(), "  Background:", "    Given " + t(), "  Scenario Outline: " + t() + " <" + hdr[0] + ">"]
    for kw in rnd.sample(["Given ", "When ", "Then ", "And ", "But ", "* "], 3):
        lines.append("    " + kw + t() + " <" + rnd.choice(hdr) + "> " + t())
        c = rnd.random()
        if c < 0.3:
            lines.append(row(["<" + rnd.choice(hdr) + ">", t().replace("|", "")]))
        elif c < 0.5:
            lines += ['      """' + rnd.choice(["", "<" + hdr[0] + ">"]), "      " + t() + " <" + rnd.choice(hdr) + ">", '      """']
    lines.append("    Examples:")
    lines.append(row(hdr))
    for _ in range(rnd.randint(0, 3)):
        lines.append(row([rnd.choice(["1", "\\\\", "\\\\1", "$1", "\\\\g<0>", "<" + hdr[0] + ">", "", "x y", "\\|", "\\n"]) for _ in hdr]))
    return "\n".join(lines) + "\n"


# ---------------------------------------------------------------- W3: faults injected into R3 documents

def faulted(rnd, R):
    """Mutate the lines of a rendered document: delete / duplicate / swap lines, insert junk,
    bad tags, unknown language headers, ragged rows, cut the document short.  -> (text, what)"""
    lines = list(R.lines)
    ops = []
    for _ in range(rnd.choice([1, 1, 1, 2, 3, 6, 15])):
        if not lines:
            break
        op = rnd.choice(["delete", "dup", "swap", "junk", "badtag", "badlang", "ragged", "cut", "unclosed", "kw"])
        i = rnd.randrange(len(lines))
        ops.append(op)
        if op == "delete":
            del lines[i]
        elif op == "dup":
            lines.insert(i, lines[i])
        elif op == "swap" and i + 1 < len(lines):
            lines[i], lines[i + 1] = lines[i + 1], lines[i]
        elif op == "junk":
            lines.insert(i, rnd.choice(["junk line %d" % rnd.randrange(100), "  ???", "Given", "| orphan |", '"""', "Examples:", "Background:", "Feature: again", "Rule: r"]))
        elif op == "badtag":
            lines.insert(i, "  " * rnd.randrange(3) + rnd.choice(["@bad tag", "@a @b c", "@x y", "@ok @no good #c"]))
        elif op == "badlang":
            lines.insert(0 if rnd.random() < 0.7 else i, rnd.choice(["#language: zz", "  # language: en_US", "#language:EN", "# language: no-such"]))
        elif op == "ragged":
            lines.insert(i, "   | extra | cells | here | now | and | more |")
        elif op == "cut":
            lines = lines[:i]
        elif op == "unclosed":
            lines.insert(i, rnd.choice(['  """', "  ```"]))
        elif op == "kw":
            spec = dialects.master()[R.dialect]
            role = rnd.choice(dialects.TITLE_ROLES)
            lines.insert(i, rnd.choice(spec[role]) + ": injected")
    text = R.nl.join(lines) + (R.nl if R.final_nl and lines else "")
    return text, ops


# ---------------------------------------------------------------- W6: scaling families

def scaling_family(name, n):
    head = "Feature: f\n  Scenario: s\n    Given a\n"
    if name == "tags_then_scenario":
        return head + "  @t\n" * n + "  Scenario: t\n    Given b\n"
    if name == "tags_then_junk":
        return head + "  @t\n" * n + "junk\n"
    if name == "tags_then_eof":
        return head + "  @t\n" * n
    if name == "comments_in_tag_run":
        return head + "  @t\n" + "  # c\n\n" * (n // 2) + "  @u\n  Scenario: t\n"
    if name == "tag_runs_repeated":
        return head + "".join("  @t%d\n  # c\n  Scenario: s%d\n    Given x\n" % (i, i) for i in range(n // 4))
    if name == "table_rows":
        return head + "      | a | b |\n" * n
    if name == "docstring_lines":
        return head + '      """\n' + "      line @x | y\n" * n + '      """\n'
    if name == "unexpected_lines":
        return head + "      | a |\n" + "".join("junk %d\n" % i for i in range(n))
    if name == "one_line_many_cells":
        return head + "      |" + " c |" * n + "\n"
    if name == "one_line_many_tags":
        return head + "  " + "@t " * n + "\n  Scenario: t\n"
    if name == "scenarios":
        return "Feature: f\n" + "".join("  Scenario: s%d\n    Given x\n" % i for i in range(n // 2))
    if name == "examples_rows":
        return "Feature: f\n  Scenario Outline: o\n    Given <a>\n    Examples:\n      | a |\n" + "      | 1 |\n" * n
    if name == "description_lines":
        return "Feature: f\n" + "  free text line\n" * n + "  Scenario: s\n"
    if name == "blank_lines":
        return "Feature: f\n\n  Scenario: s\n    Given x\n" + "\n" * n
    if name == "comments_before_feature":
        return "# c\n" * n + "Feature: f\n"
    if name == "long_line_text":
        return head + "    Given " + "x" * (n * 20) + "\n"
    if name == "language_like_comments":
        return "#" + " " * n + "language" + " " * n + ":" + " " * n + "e!\n" + "Feature: f\n"
    if name == "whitespace_only_line":
        return "Feature: f\n" + " " * (n * 20) + "\n  Scenario: s\n"
    if name == "rules":
        return "Feature: f\n" + "".join("  @r\n  Rule: r%d\n    Example: e\n      Given x\n" % i for i in range(n // 4))
    raise KeyError(name)


SCALING_FAMILIES = ["tags_then_scenario", "tags_then_junk", "tags_then_eof", "comments_in_tag_run",
                    "tag_runs_repeated", "table_rows", "docstring_lines", "unexpected_lines",
                    "one_line_many_cells", "one_line_many_tags", "scenarios", "examples_rows",
                    "description_lines", "blank_lines", "comments_before_feature", "long_line_text",
                    "language_like_comments", "whitespace_only_line", "rules"]


# ---------------------------------------------------------------- corpus splicing / character mutation

def spliced(rnd, texts):
    """Mutation-based input: lines of two corpus documents spliced, then character-level edits."""
    a = rnd.choice(texts).split("\n")
    b = rnd.choice(texts).split("\n")
    i, j = rnd.randint(0, len(a)), rnd.randint(0, len(b))
    lines = a[:i] + b[j:j + rnd.randint(0, 12)] + a[i + rnd.randint(0, 3):]
    text = "\n".join(lines)
    for _ in range(rnd.choice([0, 1, 2, 5])):
        if not text:
            break
        k = rnd.randrange(len(text))
        op = rnd.random()
        if op < 0.3:
            text = text[:k] + text[k + 1:]
        elif op < 0.6:
            text = text[:k] + rnd.choice(FRAGMENTS) + text[k:]
        elif op < 0.8:
            text = text[:k] + text[k].swapcase() + text[k + 1:]
        else:
            m = rnd.randrange(len(text))
            k, m = min(k, m), max(k, m)
            text = text[:k] + text[m:] + text[k:m]
    return text
