"""R2 — transition tables read from the sibling generated parsers (ruby, go, java, c,
javascript).  They are data for the oracle; the thing compared with them is the table
observed at run time from the real Parser.match_token (check C02)."""
from __future__ import annotations

import os
import re

from .common import REPO


def _norm_rule(r):
    return r.replace("RuleType.", "").replace("RuleType", "").replace("Rule_", "").replace(":", "")


SPECS = {
    "ruby": ("ruby/lib/gherkin/parser.rb", r"def match_token_at_state(\d+)\("),
    "go": ("go/parser.go", r"func \(ctxt \*parseContext\) matchAt(\d+)\("),
    "java": ("java/src/main/java/io/cucumber/gherkin/Parser.java", r"private int matchTokenAt_(\d+)\("),
    "c": ("c/src/parser.c", r"static int match_token_at_(\d+)\(Token\* token, ParserContext\* context\) \{"),
    "javascript": ("javascript/src/Parser.ts", r"private matchTokenAt_(\d+)\("),
}


def extract(lang):
    """-> {state: ([(kind, la|None, events, target)], [expected '#Kind' strings])}"""
    rel, hdr = SPECS[lang]
    src = open(os.path.join(REPO, rel), encoding="utf-8-sig").read()
    parts = re.split(hdr, src)[1:]
    tbl = {}
    for i in range(0, len(parts), 2):
        n = int(parts[i])
        body = parts[i + 1]
        m = re.search(r"expected_?[tT]okens", body)
        head = body[:m.start()]
        tail = body[m.start():m.start() + 600]
        trans = []
        cur = None
        for line in head.splitlines():
            l = line.strip()
            mm = re.search(r"match_?([A-Z]\w+)\(", l)
            if mm and ("if" in l):
                cur = {"kind": mm.group(1), "la": None, "ev": [], "to": None}
                trans.append(cur)
                continue
            mm = re.search(r"lookahead_?(\d)\(", l)
            if mm and "if" in l:
                cur["la"] = int(mm.group(1))
                continue
            mm = re.search(r"(start|end)_?[rR]ule\((?:context(?:, )?)?['\"]?([\w.:]*)", l)
            if mm:
                cur["ev"].append((mm.group(1), _norm_rule(mm.group(2))))
                continue
            if re.search(r"\bbuild\(", l):
                cur["ev"].append(("build",))
                continue
            mm = re.search(r"return (\d+)", l)
            if mm and cur is not None and cur["to"] is None:
                cur["to"] = int(mm.group(1))
                continue
        exp = re.search(
            r'(?:expected_?[tT]okens\w*|expectedTokens)\s*(?::[^=]*)?=\s*(?:L?"([^"\n]*)"|[^"\n]*?((?:"#\w+"(?:,\s*)?)+))',
            tail)
        if exp.group(1) is not None:
            e = [x.strip() for x in exp.group(1).split(",")]
        else:
            e = re.findall(r'"(#\w+)"', exp.group(2))
        tbl[n] = ([(t["kind"], t["la"], tuple(t["ev"]), t["to"]) for t in trans], e)
    return tbl


def erase_end_names(tbl):
    return {n: ([(k, la, tuple((e[0], "") if e[0] == "end" else e for e in ev), to) for k, la, ev, to in v[0]], v[1])
            for n, v in tbl.items()}


def lookahead_targets(lang="ruby"):
    """{la id: (target token kind, [skipped kinds])} read from the sibling's lookahead helpers."""
    rel, _ = SPECS[lang]
    src = open(os.path.join(REPO, rel), encoding="utf-8-sig").read()
    out = {}
    for m in re.finditer(r"def lookahead(\d)\(.*?\n(.*?)\n    end\n", src, re.S):
        t = re.search(r"if \(false \|\| match_(\w+)\(", m.group(2))
        skip = re.search(r"break unless \((.*)\)", m.group(2)).group(1)
        out[int(m.group(1))] = (t.group(1), re.findall(r"match_(\w+)\(", skip))
    return out


def consensus():
    """-> (table, report).  The consensus is the table of the named-end siblings when they
    all agree (JavaScript is compared with end-rule names erased); per state, if they
    disagree among themselves the state is reported as undecided (-> inconclusive)."""
    tables = {l: extract(l) for l in SPECS}
    named = ["ruby", "go", "java", "c"]
    ref = tables["ruby"]
    undecided = set()
    report = {}
    for l in named:
        report[l] = {"states": len(tables[l]), "transitions": sum(len(v[0]) for v in tables[l].values())}
        for n in set(ref) | set(tables[l]):
            if ref.get(n) != tables[l].get(n):
                undecided.add(n)
    js = tables["javascript"]
    report["javascript"] = {"states": len(js), "transitions": sum(len(v[0]) for v in js.values())}
    er = erase_end_names(ref)
    for n in set(er) | set(js):
        if er.get(n) != js.get(n):
            undecided.add(n)
    report["undecided_states"] = sorted(undecided)
    return ref, report
