"""Instrumentation layer: recording wrappers installed from outside on the classes of
the loaded repository modules (no source change).  All lookups in the code under test
go through `self.` / instance attributes, so the running code sees the wrappers.

Events are collected per parse in a ParseLog that is found through a threading.local,
so concurrent parses never share monitor state.
"""
from __future__ import annotations

import collections
import io
import sys
import threading

from . import common

common.load_repo()

from gherkin import parser as _parser_mod                      # noqa: E402
from gherkin import token_scanner as _scanner_mod              # noqa: E402
from gherkin import token_matcher as _matcher_mod              # noqa: E402
from gherkin import token_matcher_markdown as _md_mod          # noqa: E402
from gherkin.stream import id_generator as _idgen_mod          # noqa: E402

Parser = _parser_mod.Parser
TokenScanner = _scanner_mod.TokenScanner
TokenMatcher = _matcher_mod.TokenMatcher
MdMatcher = _md_mod.GherkinInMarkdownTokenMatcher
IdGenerator = _idgen_mod.IdGenerator

MATCH_METHODS = ["match_EOF", "match_Empty", "match_Comment", "match_TagLine", "match_FeatureLine",
                 "match_RuleLine", "match_BackgroundLine", "match_ScenarioLine", "match_ExamplesLine",
                 "match_StepLine", "match_DocStringSeparator", "match_TableRow", "match_Language",
                 "match_Other"]

_tl = threading.local()
_installed = False
_originals = []
missing = []                       # hooks that could not be installed (method no longer exists)
calls = collections.Counter()      # wrapper name -> number of calls (process wide; "was the hook reached?")
_calls_lock = threading.Lock()


class WorkBoundExceeded(BaseException):
    """Raised by a probe inside the code under test when a LOGICAL work bound is exceeded (scanner read far past
    the end of file, matcher calls far above the linear budget): the bounded-work form of 'nothing hangs'."""


EOF_READ_BOUND = 2000            # reads of one scanner after it reported end of file
MATCH_CALLS_PER_READ_BOUND = 400  # matcher calls per scanner read (budget per line is 36), plus a constant


class ParseLog:
    __slots__ = ("reads", "events", "builds", "transitions", "match_calls", "errors_added",
                 "la_calls", "queue_pops", "opaque", "scanner_kind", "source", "stop",
                 "outcome", "matcher_state_at_start", "builder_state_at_start", "ids",
                 "_cur_la", "_built", "reset_calls", "n_match", "dialect_changes", "tokens", "eof_reads")

    def __init__(self):
        self.reads = []            # (scanner id, line, is_eof)
        self.events = []           # ('start', R) / ('end', R) / ('build', kind, line|'EOF')
        self.builds = []           # (line|'EOF', matched_type)
        self.transitions = []      # (state, kind|'ERR', la results tuple, state')
        self.match_calls = collections.Counter()   # line -> number of TokenMatcher.match_* calls
        self.errors_added = []     # str(error) in order of add_error calls
        self.la_calls = []         # (which, result, tokens scanned)
        self.queue_pops = 0
        self.opaque = []           # doc-string opacity observations (see matcher wrapper)
        self.scanner_kind = None
        self.source = None
        self.stop = None
        self.outcome = None
        self.matcher_state_at_start = None
        self.builder_state_at_start = None
        self.ids = []
        self._cur_la = []
        self._built = 0
        self.reset_calls = 0
        self.n_match = 0
        self.dialect_changes = []
        self.tokens = []
        self.eof_reads = 0


def capture_tokens(on=True):
    """Also snapshot the matched fields of every token that reaches the builder (this thread)."""
    _tl.capture = on


def current_log():
    return getattr(_tl, "log", None)


class _BuilderProxy:
    """Stands in for Parser.ast_builder during an observed parse: records the events that
    reach the builder boundary and forwards everything to the real builder."""

    def __init__(self, real, log):
        object.__setattr__(self, "_real", real)
        object.__setattr__(self, "_log", log)

    def start_rule(self, rule_type):
        self._log.events.append(("start", rule_type))
        return self._real.start_rule(rule_type)

    def end_rule(self, rule_type):
        self._log.events.append(("end", rule_type))
        return self._real.end_rule(rule_type)

    def build(self, token):
        log = self._log
        try:
            line = "EOF" if token.eof() else token.location["line"]
        except Exception:
            line = None
        kind = getattr(token, "matched_type", None)
        log.events.append(("build", kind, line))
        log.builds.append((line, kind))
        log._built += 1
        if getattr(_tl, "capture", False):
            log.tokens.append(None if token.eof() else {
                "line": token.location.get("line"), "column": token.location.get("column"), "type": kind,
                "keyword": getattr(token, "matched_keyword", None), "keyword_type": getattr(token, "matched_keyword_type", None),
                "text": getattr(token, "matched_text", None),
                "items": [(i["column"], i["text"]) for i in (getattr(token, "matched_items", None) or [])]})
        return self._real.build(token)

    def __getattr__(self, name):
        return getattr(self._real, name)

    def __setattr__(self, name, value):
        setattr(self._real, name, value)


def _count(name):
    calls[name] += 1


def install():
    """Install the recording wrappers (idempotent)."""
    global _installed
    if _installed:
        return
    _installed = True

    def patch(cls, name, make):
        orig = cls.__dict__.get(name)
        if orig is None:
            # renamed/removed by a refactoring: the monitors that need this hook observe nothing and the
            # checks that decide with them end INCONCLUSIVE (never a violation)
            missing.append("%s.%s" % (cls.__name__, name))
            return
        _originals.append((cls, name, orig))
        setattr(cls, name, make(orig))

    # --- Parser.parse: open a log, put the proxy in front of the builder
    def mk_parse(orig):
        def parse(self, token_scanner_or_str, token_matcher=None):
            sink = getattr(_tl, "sink", None)
            if sink is None:
                return orig(self, token_scanner_or_str, token_matcher)
            _count("Parser.parse")
            log = ParseLog()
            log.source = token_scanner_or_str if isinstance(token_scanner_or_str, str) else None
            log.stop = bool(getattr(self, "stop_at_first_error", False))
            prev = getattr(_tl, "log", None)
            _tl.log = log
            real_builder = getattr(self, "ast_builder", None)
            if real_builder is not None:
                self.ast_builder = _BuilderProxy(real_builder, log)
            try:
                res = orig(self, token_scanner_or_str, token_matcher)
                log.outcome = ("ok", res)
                return res
            except BaseException as e:
                log.outcome = ("raise", e)
                raise
            finally:
                if real_builder is not None:
                    self.ast_builder = real_builder
                _tl.log = prev
                sink.append(log)
        return parse
    patch(Parser, "parse", mk_parse)

    def mk_match_token(orig):
        def match_token(self, state, token, context):
            log = getattr(_tl, "log", None)
            if log is None:
                return orig(self, state, token, context)
            _count("Parser.match_token")
            if not log.transitions and log.matcher_state_at_start is None:
                # first step of this parse: snapshot matcher/builder/context state right after the resets
                log.matcher_state_at_start = matcher_state(getattr(context, "token_matcher", None))
                log.builder_state_at_start = builder_state(getattr(self, "ast_builder", None), context)
            b0 = log._built
            log._cur_la = []
            new = None
            try:
                new = orig(self, state, token, context)
                return new
            finally:
                kind = getattr(token, "matched_type", None) if log._built > b0 else "ERR"
                log.transitions.append((state, kind, tuple(log._cur_la), new))
        return match_token
    patch(Parser, "match_token", mk_match_token)

    def mk_la(which):
        def mk(orig):
            def lookahead(self, context, currentToken):
                log = getattr(_tl, "log", None)
                if log is None:
                    return orig(self, context, currentToken)
                _count("Parser.lookahead")
                q0 = len(getattr(context, "token_queue", ()))
                r0 = len(log.reads)
                res = orig(self, context, currentToken)
                log._cur_la.append((which, bool(res)))
                log.la_calls.append((which, bool(res), q0, len(getattr(context, "token_queue", ())), len(log.reads) - r0))
                return res
            return lookahead
        return mk
    patch(Parser, "lookahead_0", mk_la(0))
    patch(Parser, "lookahead_1", mk_la(1))

    def mk_add_error(orig):
        def add_error(self, context, error):
            log = getattr(_tl, "log", None)
            if log is not None:
                _count("Parser.add_error")
                log.errors_added.append(str(error))
            return orig(self, context, error)
        return add_error
    patch(Parser, "add_error", mk_add_error)

    def mk_read_token(orig):
        def read_token(self, context):
            log = getattr(_tl, "log", None)
            if log is None:
                return orig(self, context)
            _count("Parser.read_token")
            q = getattr(context, "token_queue", None)
            head = q[0] if q else None
            tok = orig(self, context)
            if head is not None:
                log.queue_pops += 1
                if tok is not head:
                    log.opaque.append(("queue-discipline", "read_token did not return the oldest queued token"))
            return tok
        return read_token
    patch(Parser, "read_token", mk_read_token)

    # --- scanner
    def mk_read(orig):
        def read(self):
            tok = orig(self)
            log = getattr(_tl, "log", None)
            if log is not None:
                _count("TokenScanner.read")
                try:
                    eof = tok.eof()
                    log.reads.append((id(self), tok.location.get("line"), eof))
                except Exception:
                    eof = False
                if eof:
                    log.eof_reads += 1
                    if log.eof_reads > EOF_READ_BOUND:
                        raise WorkBoundExceeded("the scanner was read %d times after the end of the file" % log.eof_reads)
            return tok
        return read
    patch(TokenScanner, "read", mk_read)

    def mk_scanner_init(orig):
        def __init__(self, path_or_str):
            orig(self, path_or_str)
            log = getattr(_tl, "log", None)
            if log is not None:
                src_io = getattr(self, "io", None)
                log.scanner_kind = ("string" if isinstance(src_io, io.StringIO) else "file") if src_io is not None else None
        return __init__
    patch(TokenScanner, "__init__", mk_scanner_init)

    # --- matcher
    def mk_match(name):
        def mk(orig):
            def match(self, token):
                log = getattr(_tl, "log", None)
                if log is None:
                    return orig(self, token)
                log.n_match += 1
                if log.n_match > MATCH_CALLS_PER_READ_BOUND * (len(log.reads) + 25):
                    raise WorkBoundExceeded("%d matcher calls for %d lines read" % (log.n_match, len(log.reads)))
                try:
                    line = token.location["line"]
                except Exception:
                    line = None
                log.match_calls[line] += 1
                sep0 = getattr(self, "_active_doc_string_separator", None)
                if sep0 is None:
                    return orig(self, token)
                ind0 = getattr(self, "_indent_to_remove", None)
                res = orig(self, token)
                # doc-string opacity (C13): while a delimiter is active only the separator test may
                # change matcher state, and only DocStringSeparator/Other/EOF may succeed
                sep1 = getattr(self, "_active_doc_string_separator", None)
                ind1 = getattr(self, "_indent_to_remove", None)
                if name != "match_DocStringSeparator" and (sep1 != sep0 or ind1 != ind0):
                    log.opaque.append(("state-changed", name, line, sep0, sep1, ind0, ind1))
                log.opaque.append(("call", name, line, bool(res)))
                return res
            return match
        return mk
    for cls in (TokenMatcher, MdMatcher):
        for name in MATCH_METHODS:
            if name in cls.__dict__:
                patch(cls, name, mk_match(name))

    def mk_reset(orig):
        def reset(self):
            log = getattr(_tl, "log", None)
            if log is not None:
                log.reset_calls += 1
            return orig(self)
        return reset
    patch(TokenMatcher, "reset", mk_reset)

    def mk_change(orig):
        def _change_dialect(self, dialect_name, location=None):
            log = getattr(_tl, "log", None)
            if log is not None:
                log.dialect_changes.append(dialect_name)
            return orig(self, dialect_name, location)
        return _change_dialect
    patch(TokenMatcher, "_change_dialect", mk_change)

    # --- ids
    def mk_next_id(orig):
        def get_next_id(self):
            v = orig(self)
            idlog = getattr(_tl, "idlog", None)
            if idlog is not None:
                _count("IdGenerator.get_next_id")
                idlog.append((v, sys._getframe(1).f_code.co_name, id(self)))
            return v
        return get_next_id
    patch(IdGenerator, "get_next_id", mk_next_id)


def uninstall():
    global _installed
    for cls, name, orig in reversed(_originals):
        setattr(cls, name, orig)
    _originals.clear()
    _installed = False


def matcher_state(m):
    """Observable per-document state of a TokenMatcher."""
    if m is None:
        return None
    from gherkin.dialect import DIALECTS
    d = {
        "dialect_name": getattr(m, "dialect_name", None),
        "default": getattr(m, "_default_dialect_name", None),
        "spec_is_table_entry": getattr(getattr(m, "dialect", None), "spec", None) is DIALECTS.get(getattr(m, "dialect_name", None)),
        "keyword_types": {k: list(v) for k, v in getattr(m, "keyword_types", {}).items() if v},
        "indent_to_remove": getattr(m, "_indent_to_remove", None),
        "active_separator": getattr(m, "_active_doc_string_separator", None),
    }
    if hasattr(m, "matched_feature_line"):
        d["matched_feature_line"] = m.matched_feature_line
    return d


def builder_state(b, context):
    real = getattr(b, "_real", b)
    st = {"queue": len(getattr(context, "token_queue", ())), "errors": len(getattr(context, "errors", ()))}
    stack = getattr(real, "stack", None)
    if stack is not None:
        # Parser.parse has already sent start_rule('GherkinDocument') when the first token is matched
        st["stack"] = [getattr(n, "rule_type", None) for n in stack]
        st["items"] = [sum(len(v) for v in getattr(n, "_sub_items", {}).values()) for n in stack]
        st["comments"] = len(getattr(real, "comments", ()))
    return st


class observing:
    """with observing() as logs: ...   collects one ParseLog per Parser.parse call made by
    this thread; `ids` collects (id, drawing function, generator) for every id drawn."""

    def __init__(self, ids=False):
        self.logs = []
        self.ids = [] if ids else None

    def __enter__(self):
        install()
        self._prev = (getattr(_tl, "sink", None), getattr(_tl, "idlog", None))
        _tl.sink = self.logs
        if self.ids is not None:
            _tl.idlog = self.ids
        return self

    def __exit__(self, *a):
        _tl.sink, _tl.idlog = self._prev
        return False


# ---- file access audit (G11)
_audit_installed = False


def _audit(event, args):
    if event == "open":
        rec = getattr(_tl, "opens", None)
        if rec is not None:
            rec.append(args[0])


class auditing:
    """with auditing() as opened: ...   paths passed to open() by this thread."""

    def __enter__(self):
        global _audit_installed
        if not _audit_installed:
            sys.addaudithook(_audit)
            _audit_installed = True
        self._prev = getattr(_tl, "opens", None)
        self.opened = []
        _tl.opens = self.opened
        return self.opened

    def __exit__(self, *a):
        _tl.opens = self._prev
        return False
