"""Run sources through GherkinEvents in THIS (fresh) interpreter and print the envelopes: the reference for everything that
must not depend on what the process has done before (module-level caches, class attributes, str hash randomisation).
stdin: {"py_root": ..., "sources": [{"uri":..., "data":...}], "options": [bool, bool, bool], "fresh_per_source": bool}
stdout: one JSON list (per source: list of envelopes, or [{"raised": repr}])."""
import json
import sys


def main():
    spec = json.load(sys.stdin)
    sys.path.insert(0, spec["py_root"])
    from gherkin.stream.gherkin_events import GherkinEvents
    opts = GherkinEvents.Options(*spec["options"])
    ge = GherkinEvents(opts)
    out = []
    for s in spec["sources"]:
        if spec.get("fresh_per_source"):
            ge = GherkinEvents(opts)
        try:
            envs = list(ge.enum({"source": {"uri": s["uri"], "data": s["data"], "mediaType": "text/x.cucumber.gherkin+plain"}}))
        except Exception as e:
            envs = [{"raised": repr(e)[:300]}]
        out.append(envs)
    sys.stdout.write(json.dumps(out))


if __name__ == "__main__":
    main()
