"""Accumulator for what the monitors of one shard observed; mergeable across shards."""
from __future__ import annotations

import collections
import json

from .common import h64, jsonable

MAX_VIOLATIONS_KEPT = 60
MAX_PER_KEY = 4
MAX_SAMPLES = 6


class Monitor:
    def __init__(self):
        self.counters = collections.Counter()      # monitor / event counters
        self.hists = {}                            # name -> Counter
        self.cases = 0                             # evaluations
        self.hashes = set()                        # distinct non-trivial case hashes
        self.samples = []                          # a few actual cases
        self.violations = []                       # kept violations (dicts)
        self.violation_count = 0
        self.inconclusive = []                     # reasons
        self.sets = {}                             # name -> set (coverage sets, e.g. transitions)
        self.maxima = {}                           # name -> max value
        self.notes = {}

    # ---- recording
    def count(self, key, n=1):
        self.counters[key] += n

    def hist(self, name, value, n=1):
        self.hists.setdefault(name, collections.Counter())[str(value)] += n

    def cover(self, name, item):
        self.sets.setdefault(name, set()).add(item)

    def maximum(self, name, value):
        if value > self.maxima.get(name, float("-inf")):
            self.maxima[name] = value

    def case(self, key=None, nontrivial=True):
        """Register one evaluated case; `key` identifies it for distinctness."""
        self.cases += 1
        if nontrivial and key is not None:
            self.hashes.add(key if isinstance(key, str) and len(key) == 16 else h64(key))

    def sample(self, obj, force=False):
        if len(self.samples) < MAX_SAMPLES or force:
            self.samples.append(jsonable(obj))

    def violation(self, monitor, detail, case, mechanism=None):
        """A monitor fired. `case` must be JSON-serialisable and sufficient for replay."""
        self.violation_count += 1
        key = "%s|%s" % (monitor, mechanism)
        self.counters["violation:" + key] += 1
        if self.counters["violation:" + key] <= MAX_PER_KEY and len(self.violations) < MAX_VIOLATIONS_KEPT:
            self.violations.append(
                {"monitor": monitor, "detail": jsonable(detail), "case": jsonable(case),
                 "mechanism": mechanism}
            )

    def inconc(self, reason):
        if reason not in self.inconclusive:
            self.inconclusive.append(reason)

    # ---- (de)serialisation for shard workers
    def dump(self):
        return {
            "counters": dict(self.counters),
            "hists": {k: dict(v) for k, v in self.hists.items()},
            "cases": self.cases,
            "hashes": sorted(self.hashes),
            "samples": self.samples,
            "violations": self.violations,
            "violation_count": self.violation_count,
            "inconclusive": self.inconclusive,
            "sets": {k: sorted(map(_key, v)) for k, v in self.sets.items()},
            "maxima": self.maxima,
            "notes": self.notes,
        }

    def merge(self, d):
        self.counters.update(d["counters"])
        for k, v in d["hists"].items():
            self.hists.setdefault(k, collections.Counter()).update(v)
        self.cases += d["cases"]
        self.hashes.update(d["hashes"])
        for s in d["samples"]:
            if len(self.samples) < MAX_SAMPLES:
                self.samples.append(s)
        for v in d["violations"]:
            if len(self.violations) < 4 * MAX_VIOLATIONS_KEPT:
                self.violations.append(v)
        self.violation_count += d["violation_count"]
        for r in d["inconclusive"]:
            self.inconc(r)
        for k, v in d["sets"].items():
            self.sets.setdefault(k, set()).update(v)
        for k, v in d["maxima"].items():
            self.maximum(k, v)
        for k, v in d.get("notes", {}).items():
            self.notes.setdefault(k, v)


def _key(x):
    return x if isinstance(x, str) else json.dumps(jsonable(x), sort_keys=True)
