"""W0 — the repository's own tests run under the always-on monitors.
Loaded with `pytest -p vf.pytest_plugin`; writes what the monitors saw to $VF_W0_OUT."""
from __future__ import annotations

import json
import os

from . import probe, observe

_logs = []
_fired = []
_counts = {"parses": 0, "tests": 0}


def pytest_configure(config):
    probe.install()
    probe._tl.sink = _logs


def pytest_runtest_teardown(item, nextitem):
    _counts["tests"] += 1
    for log in _logs:
        _counts["parses"] += 1
        o = observe.Obs()
        o.log = log
        o.source = log.source
        o.stop = log.stop
        o.errors = []
        o.exc = None
        o.ast = None
        kind, val = log.outcome if log.outcome else ("raise", None)
        if kind == "ok":
            o.status, o.ast = "ok", val
        else:
            from gherkin.errors import CompositeParserException, ParserError
            if isinstance(val, CompositeParserException):
                o.status, o.exc, o.errors = "errors", val, [observe.err_record(x) for x in val.errors]
            elif isinstance(val, ParserError):
                o.status, o.exc, o.errors = "single", val, [observe.err_record(val)]
            else:
                o.status, o.exc, o.exc_origin = "crash", val, "?"
        for gid, fn in (("G1", observe.g1_typed_outcome), ("G2", observe.g2_match_budget), ("G3", observe.g3_line_accounting),
                        ("G3q", observe.queue_discipline), ("G4", observe.g4_derivation), ("G8", observe.g8_error_list),
                        ("G13", lambda o: observe.g13_fresh_state(o, None))):
            try:
                for mid, detail in fn(o):
                    _fired.append({"monitor": mid, "test": item.nodeid, "detail": detail})
            except Exception as e:       # a monitor must never break the test run
                _fired.append({"monitor": "harness", "test": item.nodeid, "detail": repr(e)})
        if o.status == "ok" and isinstance(o.source, str) and isinstance(o.ast, dict):
            for mid, detail in observe.g5_location_slices(o.ast, o.source):
                _fired.append({"monitor": mid, "test": item.nodeid, "detail": detail})
    del _logs[:]


def pytest_sessionfinish(session, exitstatus):
    out = os.environ.get("VF_W0_OUT")
    if out:
        with open(out, "w") as f:
            json.dump({"fired": _fired, "counts": _counts, "exitstatus": int(exitstatus)}, f, default=repr)
