"""R3 — document model and renderer.  A random document is rendered to text with random
layout; while rendering, the renderer records the *intended* AST with exact locations, the
intended kind of every physical line and the comment list.  The intended AST is what the
text was built from, not a re-implementation of the parser.

Soundness rules (DESIGN.md section 4, R3) keep a correct parser from legitimately reading
the text differently; every emitted line is classified on its FINAL rendered form.
"""
from __future__ import annotations

import unicodedata

from . import dialects

STEPROLES = dialects.STEP_ROLES
KT = dialects.CATEGORY_TYPE

# characters that may not stand at the edge of a name/text/cell (white space under Python or Unicode)
_WS_EDGE = set(c for c in map(chr, range(0x3100)) if c.isspace()) | {"᠎", "​", "﻿", " ", " ", " ", "　", "\u0085"}
for _c in map(chr, range(0x3100)):
    if unicodedata.category(_c) in ("Zs", "Zl", "Zp"):
        _WS_EDGE.add(_c)

ALPHA = list("abcxyzABC019 _-:;,.!?'()[]{}<>@#|\\\"`*+=/$^~&%") + \
    ["é", "ß", "Ж", "漢", "\U0001F600", "́", "\x00", "\x0b", "\x0c", "\x1c", "\x1e", "\x85",
     " ", " ", " ", "　", "\t", "  ", "\U00010348", "‍",
     "\ufeff", "\u200b", "\x1a", "\x1d", "\u212b", "\u1100\u1161", "\ufffe"]   # BOM / zero-width blank inside text, SUB, GS, NFC-unstable letters, a non-character
RARE = ["\r", "\ud800", "\udfff"]          # lone CR / lone surrogates, low rate

CTX = {   # description context -> (title roles that would end it, steps expected?, table rows expected?)
    "feature": (["background", "scenario", "scenarioOutline", "rule"], False, False),
    "rule": (["background", "scenario", "scenarioOutline", "rule"], False, False),
    "background": (["scenario", "scenarioOutline", "rule"], True, False),
    "scenario": (["examples", "scenario", "scenarioOutline", "rule"], True, False),
    "examples": (["examples", "scenario", "scenarioOutline", "rule"], False, True),
}

SIZES = {
    "small": dict(scen=[0, 1, 1, 2], rules=[0, 0, 1], rscen=[0, 1, 2], steps=[0, 1, 2], ex=[0, 0, 1, 2], rows=3, cols=3, desc=4, doc=3),
    "medium": dict(scen=[0, 1, 2, 3], rules=[0, 0, 1, 2], rscen=[0, 1, 2], steps=[0, 1, 2, 3], ex=[0, 0, 1, 2], rows=3, cols=3, desc=5, doc=4),
    "large": dict(scen=[2, 4, 8], rules=[1, 2, 4], rscen=[1, 3, 5], steps=[1, 3, 6, 9], ex=[0, 1, 2, 3], rows=6, cols=5, desc=6, doc=30),
    # boundary profile: every count crosses 10 (ids cross 100/1000, lines cross 100/1000)
    "huge": dict(scen=[11, 14], rules=[3, 11], rscen=[2, 11], steps=[10, 12, 13], ex=[3, 5], rows=12, cols=12, desc=12, doc=110),
}

# boundary values for names / step texts / cells / tag names (all free of white space at their ends)
SPECIAL_TEXT = ["<", ">", "<>", "<<a>>", "@", "@tag", ":", "::", "|", "#", "# not a comment", "\\", "\\n", "0", "-1", "Feature", "Feature:", "Scenario: x",
                "Given", "Given x", "*", "* x", "Examples:", '"""', "```", "a" * 300, "x y  z", "<a><b>", "<a b>", "a|b", "a\\|b", "%", "%s", "%(x)s", "{0}", "{}",
                "\\1", "$1", "None", "null", "true", "é", "\U0001F600", "a\tb", "=", "--", "---", ":-", "|-|", "`@x`", "1.5e3", "'", '"']
SPECIAL_TAG = ["@", "@@", "@1", "@a:b", "@a#b", "@<a>", "@|", "@\\", "@" + "t" * 120, "@é", "@a.b-c_d", "@%s", "@{0}"]


class Gen:
    def __init__(self, rnd, dialect, size="medium", rare=False, ascii_only=False, special=0.0, deep=False, default_dialect="en", dup=0.0):
        self.default_dialect = default_dialect       # dialect of the matcher that will read the text: no header needed for it
        self.special = special
        self.dup = dup                                # probability of drawing names/texts/cells/tags from a tiny pool: repeated lines
        self.deep = deep
        self.r = rnd
        self.d = dialect
        self.spec = dialects.master()[dialect]
        self.sz = SIZES[size]
        self.rare = rare
        self.ascii_only = ascii_only
        self.lines = []
        self.kinds = []
        self.comments = []
        self.steps_all = dialects.step_keywords(self.spec)
        self.stats = {}
        self.dstate = None
        self.all_titles = [k + ":" for r in dialects.TITLE_ROLES for k in self.spec[r]]

    def stat(self, k, n=1):
        self.stats[k] = self.stats.get(k, 0) + n

    # ---- text helpers
    def text(self, maxlen=10, allow_empty=True):
        r = self.r
        if self.special and r.random() < self.special:
            self.stat("special_values")
            return r.choice(SPECIAL_TEXT)
        if self.dup and r.random() < self.dup:
            self.stat("repeated_values")
            return r.choice(("same", "x y", "dup"))
        n = r.randint(0 if allow_empty else 1, maxlen)
        alpha = ALPHA[:45] if self.ascii_only else ALPHA
        cs = [r.choice(alpha) for _ in range(n)]
        if self.rare and n and r.random() < 0.05:
            cs[r.randrange(n)] = r.choice(RARE)
        t = "".join(cs)
        while t and t[0] in _WS_EDGE:
            t = t[1:]
        while t and t[-1] in _WS_EDGE:
            t = t[:-1]
        if not t and not allow_empty:
            t = "x"
        return t

    def ind(self):
        if self.deep and self.r.random() < 0.15:
            self.stat("deep_indentation")
            return " " * self.r.choice([98, 99, 100, 101, 127, 255, 999])
        return "".join(self.r.choice("  \t") for _ in range(self.r.choice([0, 0, 1, 2, 2, 4, 5])))

    def pad(self):
        return self.r.choice(["", "", " ", "  ", "\t"])

    def emit(self, line, kind):
        assert "\n" not in line
        self.lines.append(line)
        self.kinds.append(kind)
        # where are we relative to a description?  after a title line blank lines are #Empty until
        # the first comment or text line; from then on they are free text (#Other) of the description
        if kind in ("FeatureLine", "RuleLine", "BackgroundLine", "ScenarioLine", "ExamplesLine"):
            self.dstate = "helper"
        elif kind in ("Comment", "Other"):
            if self.dstate == "helper":
                self.dstate = "desc"
        elif kind != "Empty":
            self.dstate = None
        return len(self.lines)

    def comment(self):
        i = self.ind()
        t = "#" + self.r.choice(["", " ", "lang ", "language", " language: en too", "#"]) + self.text()
        line = i + t + self.pad()
        if dialects_language_re(line):
            line = i + "#c" + self.pad()
        ln = self.emit(line, "Comment")
        self.comments.append({"location": {"line": ln, "column": 1}, "text": line})
        self.stat("comments")

    def blank(self):
        self.emit(self.r.choice(["", "", " ", "\t  "]), "Other" if self.dstate == "desc" else "Empty")

    def filler(self, p=0.25):
        while self.r.random() < p:
            if self.r.random() < 0.5:
                self.blank()
            else:
                self.comment()

    # ---- keyword classification
    def starts_title(self, t, roles):
        return any(t.startswith(k + ":") for r in roles for k in self.spec[r])

    def starts_any_title(self, t):
        return any(t.startswith(k) for k in self.all_titles)

    def starts_step(self, t):
        return any(t.startswith(k) for k, _ in self.steps_all)

    INVISIBLE = ["\u200f", "\u200e", "\u061c", "\u2060", "\u00ad", "\u200b", "\ufeff", "\u034f", "\u200d"]

    def near_miss(self, roles, steps):
        """A line that is ALMOST a keyword line which would end the description here — a listed keyword of this dialect with an
        invisible (non-blank) character in front, another apostrophe, another case, another normalisation form, a full-width
        colon, a no-break blank inside, or its trailing blank missing.  It is not a listed keyword, hence free text; the
        caller's filters (and the check that no listed keyword prefixes it) keep only those that really are none."""
        import unicodedata as ud
        r = self.r
        cands = [(k, ":") for role in roles for k in self.spec[role]]
        if steps:
            cands += [(k, "") for k, _ in self.steps_all if k.strip() != "*"]
        if not cands:
            return None
        quoted = [c for c in cands if "'" in c[0] or "\u2019" in c[0]]
        k, colon = r.choice(quoted) if quoted and r.random() < 0.5 else r.choice(cands)
        vs = [r.choice(self.INVISIBLE) + k + colon, k[0].swapcase() + k[1:] + colon, ud.normalize("NFD", k) + colon, ud.normalize("NFC", k) + colon,
              (k.upper() if k.upper() != k else k.lower()) + colon]
        if "'" in k:
            vs += [k.replace("'", a) + colon for a in ("\u2019", "\u02bc", "\u2032")] * 2
        if "\u2019" in k:
            vs += [k.replace("\u2019", "'") + colon] * 4
        if colon:
            vs.append(k + "\uff1a")
        if " " in k.strip():
            vs.append(k.strip().replace(" ", "\u00a0", 1) + k[len(k.rstrip()):] + colon)
        if not colon and k.endswith(" "):
            vs.append(k[:-1])
        vs = [v for v in vs if v != k + colon]
        if not vs:
            return None
        v = r.choice(vs)
        line = v + (" " if colon else "") + "near miss"
        if self.starts_any_title(line) or self.starts_step(line):
            return None
        return line

    def desc_text_line(self, ctx):
        roles, steps, table = CTX[ctx]
        r = self.r
        for _ in range(50):
            c = r.random()
            if c < 0.6:
                t = self.text(12, False)
            elif c < 0.72 and (steps or roles):
                t = self.near_miss(roles, steps)
                if t is None:
                    continue
                self.stat("desc.near_miss_keyword")
            else:
                opts = [self.spec["feature"][0] + ": decoy", '"""', "```"]
                if "examples" not in roles:
                    opts.append(self.spec["examples"][0] + ": decoy")
                if "background" not in roles:
                    opts.append(self.spec["background"][0] + ": decoy")
                if not steps:
                    opts.append(r.choice(self.steps_all)[0] + "decoy")
                if not table:
                    opts.append("| decoy |")
                t = r.choice(opts)
                self.stat("desc.decoy")
            t = t + self.pad()
            lt = t.lstrip()
            if not lt.strip() or lt[0] in "#@":
                continue
            if table and lt.startswith("|"):
                continue
            if self.starts_title(lt, roles):
                continue
            if steps and self.starts_step(lt):
                continue
            return t
        return "plain text"

    def description(self, ctx):
        r = self.r
        while r.random() < 0.3:
            self.blank()
        if r.random() < 0.5:
            return ""
        toks = []
        n = r.randint(1, self.sz["desc"])
        for j in range(n):
            c = r.random()
            if j == 0:
                c = c * 0.7
            if c < 0.45:
                line = self.ind() + self.desc_text_line(ctx)
                self.emit(line, "Other")
                toks.append(line)
            elif c < 0.7:
                self.comment()
                if j == 0:
                    self.stat("desc.starts_with_comment")
            else:
                line = r.choice(["", "", " ", "\t "])
                self.emit(line, "Other")
                toks.append(line)
                self.stat("desc.interior_blank")
        k = len(toks)
        while toks and not toks[-1].strip():
            if toks[-1] != "":
                self.stat("desc.trailing_whitespace_only_line")
            toks.pop()
        if len(toks) < k:
            self.stat("desc.trailing_blank_dropped")
        if toks:
            self.stat("desc.nonempty")
        return "\n".join(toks)

    def tags(self, allow_filler=True):
        r = self.r
        out = []
        for _ in range(r.choice([0, 0, 1, 1, 2]) if not self.special else r.choice([0, 1, 2, 3])):
            if allow_filler:
                self.filler(0.15)
            i = self.ind()
            line = i
            ln = len(self.lines) + 1
            dup_line = bool(self.dup) and r.random() < self.dup
            for _ in range(r.choice([1, 1, 2]) if dup_line else r.randint(1, 3) if not self.special else r.choice([1, 2, 3, 10, 12])):
                if dup_line:
                    # tag lines that are identical up to their indentation
                    name = r.choice(("@dup", "@d2"))
                    out.append({"location": {"line": ln, "column": len(line) + 1}, "name": name})
                    line += name + " "
                    continue
                chars = "abcXYZ09_-#:.<>|\\é\U0001F600" if not self.ascii_only else "abcXYZ09_-#:."
                name = "@" + "".join(r.choice(chars) for _ in range(r.randint(1, 4)))
                if self.special and r.random() < self.special:
                    name = r.choice(SPECIAL_TAG)
                    if name == "@@":
                        # two empty-named tags written without a blank between them
                        out.append({"location": {"line": ln, "column": len(line) + 1}, "name": "@"})
                        line += "@"
                        name = "@"
                out.append({"location": {"line": ln, "column": len(line) + 1}, "name": name})
                line += name + r.choice([" ", "  ", "\t", ""])
            if dup_line:
                self.emit(line.rstrip(), "TagLine")
                self.stat("tags.repeated_lines")
            elif r.random() < 0.2:
                line = line.rstrip() + r.choice([" ", "\t"]) + "#trailing @notatag"
                self.emit(line, "TagLine")
                self.stat("tags.trailing_comment")
            else:
                self.emit(line + self.pad(), "TagLine")
            self.stat("taglines")
        return out

    def title(self, role, kind):
        r = self.r
        k = r.choice(self.spec[role])
        for _ in range(20):
            name = self.text()
            i = self.ind()
            sep = r.choice([" ", "", "  ", "\t"])
            line = i + k + ":" + sep + name + self.pad()
            # the final line must not be readable as a step line (no dialect has such a keyword pair,
            # but the name could complete one)
            if not self.starts_step(line.lstrip()) or kind is None:
                break
        ln = self.emit(line, kind)
        return k, name, {"line": ln, "column": len(i) + 1}

    def cellvalue(self):
        r = self.r
        t = self.text(6)
        if r.random() < 0.2:
            t = r.choice(["\n", "a\nb", "|", "\\", "a|b\\c", "\\n", "\n\n", "\\|", "<a>", "\\\\"])
            self.stat("cells.special")
        return t

    @staticmethod
    def esc(v):
        return "".join({"\n": "\\n", "|": "\\|", "\\": "\\\\"}.get(ch, ch) for ch in v)

    def row(self, ncols):
        r = self.r
        i = self.ind()
        line = i + "|"
        cells = []
        ln = len(self.lines) + 1
        for _ in range(ncols):
            v = self.cellvalue()
            lp = r.choice(["", " ", "  ", "\t"])
            rp = r.choice(["", " ", "  "])
            raw = self.esc(v)
            if r.random() < 0.1 and "\\" not in v and "|" not in v and "\n" not in v:
                # a backslash not followed by n, | or \ is kept as written
                raw = raw + "\\x"
                v = v + "\\x"
                self.stat("cells.kept_backslash")
            col = len(line) + len(lp) + 1 + (len(rp) if raw == "" else 0)
            cells.append({"location": {"line": ln, "column": col}, "value": v})
            line += lp + raw + rp + "|"
        if r.random() < 0.15:
            line += " junk after"
        self.emit(line + self.pad(), "TableRow")
        self.stat("rows")
        return {"location": {"line": ln, "column": len(i) + 1}, "cells": cells}

    def table(self, minrows=1):
        r = self.r
        nc = r.randint(1, self.sz["cols"])
        rows = []
        for _ in range(r.randint(minrows, self.sz["rows"])):
            self.filler(0.1)
            rows.append(self.row(nc))
        return rows

    def docstring(self):
        r = self.r
        i = self.ind()
        delim = r.choice(['"""', "```"])
        mt = r.choice(["", "", "json", "text/x y", "<a>", "été"])
        ln = self.emit(i + delim + r.choice(["", " "]) + mt + self.pad(), "DocStringSeparator")
        content = []
        pool = ["Feature: x", "@tag here", "@bad tag", "# comment", "#language: fr", "| a |", "Given x",
                '\\"\\"\\"', "\\`\\`\\`", "```" if delim == '"""' else '"""', "  indented", "Examples:", "Rule: r",
                "Scenario: s", "* star", "Background:", "x" + delim]
        for _ in range(r.randint(0, self.sz["doc"])):
            c = r.random()
            if c < 0.35:
                body = self.text(8)
            elif c < 0.5:
                body = r.choice(["", "", " ", "\t"])
            else:
                body = r.choice(pool)
                if r.random() < 0.3:
                    body = r.choice(self.steps_all)[0] + "kw"
            if body.lstrip().startswith(delim):
                body = "x" + body
            rel = r.choice(["same", "more", "less"])
            if rel == "same":
                li = i
            elif rel == "more":
                li = i + r.choice([" ", "  ", "\t"])
            else:
                li = i[:r.randint(0, len(i))] if i else i
            line = li + body
            if line.lstrip().startswith(delim):
                line = li + "x" + body
            self.emit(line, "Other")
            self.stat("doc.lines")
            self.stat("doc.rel." + rel)
            if line.strip() == "":
                exp = line[len(i):] if len(line) >= len(i) else ""
            else:
                own = len(line) - len(line.lstrip())
                exp = line[len(i):] if own >= len(i) else line.lstrip()
            exp = exp.replace('\\"\\"\\"', '"""') if delim == '"""' else exp.replace("\\`\\`\\`", "```")
            content.append(exp)
        self.emit(i + delim + r.choice(["", "", " ignored"]), "DocStringSeparator")
        ds = {"location": {"line": ln, "column": len(i) + 1}, "content": "\n".join(content), "delimiter": delim}
        if mt:
            ds["mediaType"] = mt
        self.stat("docstrings")
        return ds

    def step(self):
        r = self.r
        for _ in range(20):
            k, role = r.choice(self.steps_all)
            txt = self.text()
            i = self.ind()
            line = i + k + txt + self.pad()
            lt = line.lstrip()
            if not self.starts_any_title(lt):
                break
        else:
            k, role = self.steps_all[0]
            line = i + k + "x"
            lt = line.lstrip()
        ek, kt = dialects.expected_step(self.spec, lt)
        ln = self.emit(line, "StepLine")
        st = {"location": {"line": ln, "column": len(i) + 1}, "keyword": ek, "keywordType": kt,
              "text": lt[len(ek):].strip()}
        self.stat("steps")
        c = r.random()
        if c < 0.25:
            self.filler(0.1)
            rows = self.table()
            st["dataTable"] = {"location": rows[0]["location"], "rows": rows}
            self.stat("datatables")
        elif c < 0.5:
            self.filler(0.1)
            st["docString"] = self.docstring()
        return st

    def steps(self):
        out = []
        for _ in range(self.r.choice(self.sz["steps"])):
            self.filler(0.15)
            out.append(self.step())
        return out

    def background(self):
        self.filler(0.15)
        k, name, loc = self.title("background", "BackgroundLine")
        desc = self.description("background")
        st = self.steps()
        self.stat("backgrounds")
        return {"background": {"location": loc, "keyword": k, "name": name, "description": desc, "steps": st}}

    def scenario(self):
        r = self.r
        tg = self.tags()
        self.filler(0.15)
        k, name, loc = self.title(r.choice(["scenario", "scenarioOutline"]), "ScenarioLine")
        desc = self.description("scenario")
        st = self.steps()
        exs = []
        for _ in range(r.choice(self.sz["ex"])):
            etg = self.tags()
            self.filler(0.15)
            ek, en, el = self.title("examples", "ExamplesLine")
            ed = self.description("examples")
            ex = {"tags": etg, "location": el, "keyword": ek, "name": en, "description": ed, "tableBody": []}
            if r.random() < 0.8:
                rows = self.table()
                ex["tableHeader"] = rows[0]
                ex["tableBody"] = rows[1:]
            exs.append(ex)
            self.stat("examples")
        self.stat("scenarios")
        return {"scenario": {"tags": tg, "location": loc, "keyword": k, "name": name, "description": desc,
                             "steps": st, "examples": exs}}

    def doc(self):
        r = self.r
        self.filler(0.2)
        if self.d == self.default_dialect and r.random() < 0.03:
            self.stat("featureless")
            return {"comments": self.comments}
        if (self.d != self.default_dialect and True) or r.random() < 0.3:
            hdr = self.ind() + "#" + r.choice(["", " ", "  ", "\t"]) + "language" + r.choice(["", " "]) + ":" + \
                r.choice(["", " ", "  "]) + self.d + self.pad()
            ln = self.emit(hdr, "Language")
            self.stat("language_headers")
            self.filler(0.2)
            if r.random() < 0.1:
                # a second header is a plain comment (grammar: #Language?)
                line = "# language: " + self.d
                ln = self.emit(line, "Comment")
                self.comments.append({"location": {"line": ln, "column": 1}, "text": line})
                self.stat("second_header_as_comment")
        ftags = self.tags()
        self.filler(0.15)
        k, name, loc = self.title("feature", "FeatureLine")
        desc = self.description("feature")
        children = []
        if r.random() < 0.4:
            children.append(self.background())
        for _ in range(r.choice(self.sz["scen"])):
            children.append(self.scenario())
        for _ in range(r.choice(self.sz["rules"])):
            rt = self.tags()
            self.filler(0.15)
            rk, rn, rl = self.title("rule", "RuleLine")
            rd = self.description("rule")
            rc = []
            if r.random() < 0.4:
                rc.append(self.background())
            for _ in range(r.choice(self.sz["rscen"])):
                rc.append(self.scenario())
            children.append({"rule": {"tags": rt, "location": rl, "keyword": rk, "name": rn, "description": rd,
                                      "children": rc}})
            self.stat("rules")
        self.filler(0.2)
        return {"feature": {"tags": ftags, "location": loc, "language": self.d, "keyword": k, "name": name,
                            "description": desc, "children": children}, "comments": self.comments}


import re as _re
_LANG = _re.compile(r"^\s*#\s*language\s*:\s*([a-zA-Z\-_]+)\s*$")


def dialects_language_re(line):
    return _LANG.match(line) is not None


class Rendered:
    __slots__ = ("text", "lines", "kinds", "ast", "nl", "final_nl", "dialect", "stats", "seed", "default_dialect")


def render(rnd, dialect=None, size="medium", rare=False, ascii_only=False, nl=None, default_dialect="en", special=0.0, deep=False, dup=0.0):
    """-> Rendered.  With default_dialect != 'en' the language header is omitted when the
    document's dialect equals the matcher's default."""
    names = list(dialects.master())
    if dialect is None:
        dialect = "en" if rnd.random() < 0.4 else rnd.choice(names)
    g = Gen(rnd, dialect, size, rare, ascii_only, special, deep, default_dialect, dup)
    ast = g.doc()
    out = Rendered()
    out.nl = nl or rnd.choice(["\n", "\n", "\r\n"])
    if rare and out.nl == "\r\n":
        # lone CR inside text next to a CRLF terminator would be ambiguous for CR-trimming; keep LF
        out.nl = "\n"
    out.final_nl = bool(rnd.random() < 0.8 or (g.lines and g.lines[-1] == ""))
    out.text = out.nl.join(g.lines) + (out.nl if out.final_nl else "")
    if not g.lines:
        out.text = ""
    out.lines = g.lines
    out.kinds = g.kinds
    out.ast = ast
    out.dialect = dialect
    out.default_dialect = default_dialect
    out.stats = g.stats
    return out


def fixdesc_strip_ids(o):
    """Remove ids from a parsed AST for comparison with the intended AST (ids are C11)."""
    if isinstance(o, dict):
        return {k: fixdesc_strip_ids(v) for k, v in o.items() if k != "id"}
    if isinstance(o, list):
        return [fixdesc_strip_ids(x) for x in o]
    return o


def diff(a, b, path=""):
    """Structural difference list [(path, intended, got)]."""
    if type(a) != type(b):
        return [(path, a, b)]
    if isinstance(a, dict):
        out = []
        for k in sorted(set(a) | set(b)):
            if k not in a or k not in b:
                out.append((path + "/" + k, a.get(k, "<missing>"), b.get(k, "<missing>")))
            else:
                out += diff(a[k], b[k], path + "/" + k)
        return out
    if isinstance(a, list):
        if len(a) != len(b):
            return [(path + "[len]", len(a), len(b))]
        out = []
        for i, (x, y) in enumerate(zip(a, b)):
            out += diff(x, y, path + "[%d]" % i)
        return out
    return [] if a == b else [(path, a, b)]
