"""R9 — keyword-table rules over the master table /repo/gherkin-languages.json."""
from __future__ import annotations

import json

from .common import MASTER_LANGUAGES

STEP_ROLES = ["given", "when", "then", "and", "but"]
TITLE_ROLES = ["feature", "rule", "background", "scenario", "scenarioOutline", "examples"]
ROLE_KIND = {"feature": "FeatureLine", "rule": "RuleLine", "background": "BackgroundLine",
             "scenario": "ScenarioLine", "scenarioOutline": "ScenarioLine", "examples": "ExamplesLine"}
CATEGORY_TYPE = {"given": "Context", "when": "Action", "then": "Outcome", "and": "Conjunction", "but": "Conjunction"}

_master = None


def master():
    global _master
    if _master is None:
        with open(MASTER_LANGUAGES, encoding="utf-8") as f:
            _master = json.load(f)
    return _master


def step_keywords(spec):
    """[(keyword, role)] in given/when/then/and/but order, as listed."""
    return [(k, r) for r in STEP_ROLES for k in spec[r]]


def expected_step(spec, trimmed_line):
    """(keyword, keywordType) the statement prescribes for a line, or None:
    the first listed step keyword that prefixes the line; type of its category,
    Unknown when the keyword is listed in more than one category."""
    for k, r in step_keywords(spec):
        if trimmed_line.startswith(k):
            cats = {CATEGORY_TYPE[rr] for kk, rr in step_keywords(spec) if kk == k}
            return k, (next(iter(cats)) if len(cats) == 1 else "Unknown")
    return None


def expected_title(spec, roles, trimmed_line):
    """(keyword, role) of the first keyword k in `roles` (in that order) with line starting `k:`."""
    for r in roles:
        for k in spec[r]:
            if trimmed_line.startswith(k + ":"):
                return k, r
    return None


def title_kinds(spec, trimmed_line):
    """Set of token kinds whose title keywords match the line."""
    return {ROLE_KIND[r] for r in TITLE_ROLES for k in spec[r] if trimmed_line.startswith(k + ":")}


def stats():
    m = master()
    nkw = sum(len(v[r]) for v in m.values() for r in STEP_ROLES + TITLE_ROLES)
    return {"dialects": len(m), "keywords": nkw}


def derived_unknown_names():
    """Names that are NOT dialect codes but are made from the codes of the table: the language part alone, another region or
    script, other letter case, '_' for '-', one letter more or less.  A '# language:' header with such a name must be reported
    as an unknown dialect (and nothing else may happen)."""
    import re
    m = master()
    out = []
    for c in sorted(m):
        base = c.split("-")[0]
        for n in (base, base + "-XX", base + "-Latn", base + "_" + "".join(c.split("-")[1:]) if "-" in c else base + "_XX",
                  c.upper(), c.lower(), c.title(), c.swapcase(), c.replace("-", "_"), c + "-x", c + "x", c[:-1], c + "-", "-" + c):
            if n and n not in m and n not in out and re.fullmatch(r"[a-zA-Z\-_]+", n):
                out.append(n)
    return out
