"""setup_cmd: nothing to build; verify that the oracles agree with the golden data they
are derived from (a wrong oracle must show up here, not as a violation)."""
from __future__ import annotations

import sys


def main():
    from . import common
    common.load_repo()
    problems = []
    from . import refcompile, messages, siblings, grammar, noisy, dialects, observe
    ok, p = refcompile.selfcheck()
    print("R4/R5 reference compiler and id order reproduce %d golden corpus files; problems: %d" % (ok, len(p)))
    problems += p
    n, p = messages.selfcheck()
    print("R7 message validator accepts %d golden envelopes; problems: %d" % (n, len(p)))
    problems += p
    table, rep = siblings.consensus()
    print("R2 sibling tables:", rep)
    if rep["undecided_states"]:
        problems.append(("siblings disagree", rep["undecided_states"]))
    g = grammar.Grammar()
    tb = {n: ([(k, la, ev, to) for k, la, ev, to in v[0]], [e.lstrip("#") for e in v[1]]) for n, v in table.items()}
    la = {k: v[0] for k, v in siblings.lookahead_targets().items()}
    pairs, checks, mism, _ = g.bisimulate(tb, la)
    print("R1 grammar automaton vs R2 consensus: %d state pairs, %d checks, %d mismatches" % (pairs, checks, len(mism)))
    problems += mism[:5]
    # pool kinds of the noisy workload against the keyword rules R9
    bad = 0
    for p_ in noisy.POOL:
        for d in ("en", "fr"):
            spec = dialects.master()[d]
            t = p_.text.strip()
            kinds = set(dialects.title_kinds(spec, t))
            if dialects.expected_step(spec, p_.text.lstrip() + "\n"):
                kinds.add("StepLine")
            want = p_.kind.get(d) if p_.kind else None
            if want in ("FeatureLine", "RuleLine", "BackgroundLine", "ScenarioLine", "ExamplesLine", "StepLine"):
                if kinds != {want}:
                    bad += 1
                    problems.append(("pool kind", p_.text, d, want, sorted(kinds)))
            elif kinds:
                bad += 1
                problems.append(("pool kind", p_.text, d, want, sorted(kinds)))
    print("W4 pool: %d lines x 2 dialects consistent with the keyword table; problems: %d" % (len(noisy.POOL), bad))
    from . import probe
    probe.install()
    probe.uninstall()
    print("probes install/uninstall on the loaded repository modules: ok (%s)" % common.PY_ROOT)
    if problems:
        for p in problems[:10]:
            print("SELFCHECK PROBLEM:", p)
        return 1
    print("selfcheck ok")
    return 0


if __name__ == "__main__":
    sys.exit(main())
