"""Loading the code under test and small shared helpers.

Every check process imports the repository's *current working tree*
($VERIF_REPO/python, default /repo/python); nothing is built or cached, and
nothing is ever written below the repository.
"""
from __future__ import annotations

import atexit
import hashlib
import json
import os
import shutil
import sys
import tempfile

VERIF_DIR = os.path.dirname(os.path.dirname(os.path.abspath(__file__)))
REPO = os.path.abspath(os.environ.get("VERIF_REPO", "/repo"))
PY_ROOT = os.path.join(REPO, "python")
MASTER_LANGUAGES = os.path.join(REPO, "gherkin-languages.json")
PACKAGED_LANGUAGES = os.path.join(PY_ROOT, "gherkin", "gherkin-languages.json")
BERP = os.path.join(REPO, "gherkin.berp")
TESTDATA = os.path.join(REPO, "testdata")
GUARD = "GHERKIN_VERIF_HOOKS"

sys.dont_write_bytecode = True
_loaded = False


def load_repo():
    """Put the repository's python tree first on sys.path (once)."""
    global _loaded
    if not _loaded:
        if PY_ROOT in sys.path:
            sys.path.remove(PY_ROOT)
        sys.path.insert(0, PY_ROOT)
        os.environ.setdefault(GUARD, "1")
        _loaded = True


_scratch = None


def enter_scratch_cwd() -> str:
    """chdir into a fresh empty directory (removed at exit) so that a generated
    source text can coincide with a filesystem entry only on purpose."""
    global _scratch
    if _scratch is None:
        _scratch = tempfile.mkdtemp(prefix="vf-cwd-")
        os.chdir(_scratch)
        atexit.register(_cleanup)
    return _scratch


def _cleanup():
    try:
        os.chdir("/")
        shutil.rmtree(_scratch, ignore_errors=True)
    except Exception:
        pass


def h64(obj) -> str:
    """Short stable content hash (for distinctness counting)."""
    if not isinstance(obj, (str, bytes)):
        obj = json.dumps(obj, sort_keys=True, ensure_ascii=True, default=repr)
    if isinstance(obj, str):
        obj = obj.encode("utf-8", "surrogatepass")
    return hashlib.blake2b(obj, digest_size=8).hexdigest()


def jsonable(o, depth=0):
    """Best-effort conversion of arbitrary observed values into JSON-safe data."""
    if depth > 12:
        return repr(o)
    if isinstance(o, (str, int, float, bool)) or o is None:
        return o
    if isinstance(o, dict):
        return {str(k): jsonable(v, depth + 1) for k, v in o.items()}
    if isinstance(o, (list, tuple, set, frozenset)):
        return [jsonable(v, depth + 1) for v in o]
    return repr(o)


def short(o, n=400):
    s = o if isinstance(o, str) else json.dumps(jsonable(o), ensure_ascii=True)
    return s if len(s) <= n else s[:n] + "...(%d chars)" % len(s)
