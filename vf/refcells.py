"""R6 — reference table-row splitter / escaper, written differently from the code under
test (regex tokenisation of the row instead of a character loop)."""
from __future__ import annotations

import re

_TOK = re.compile(r"\\.|\\$|\||[^\\|]+", re.S)
_UNESC = {"\\n": "\n", "\\|": "|", "\\\\": "\\"}


def is_blank(ch):
    return ch.isspace() and ch != "\n"


def ref_cells(physical_line: str):
    """physical_line: the line as it stands in the source (a terminator, if any, may be
    included).  Returns [(column, value)] as README 'Table cell escaping' / property C12
    prescribe: cells are the texts between consecutive unescaped pipes; \\n -> LF,
    \\| -> |, \\\\ -> \\, other pairs verbatim; blanks (not line feeds) trimmed;
    column = 1-based code-point offset of the first non-blank raw character of the cell,
    or of the closing pipe for an empty cell."""
    n_lead = len(physical_line) - len(physical_line.lstrip())
    row = physical_line.strip()
    cells = []
    cur = None          # list of (raw offset, raw text, unescaped text) of the open cell
    for m in _TOK.finditer(row):
        t = m.group(0)
        if t == "|":
            if cur is not None:
                cells.append((cur, m.start()))
            cur = []
            continue
        if cur is None:
            continue          # before the first pipe
        if t[0] == "\\":
            cur.append((m.start(), t, _UNESC.get(t, t)))
        else:
            cur.append((m.start(), t, t))
    out = []
    for parts, close in cells:
        value = "".join(p[2] for p in parts)
        a, b = 0, len(value)
        while a < b and is_blank(value[a]):
            a += 1
        while b > a and is_blank(value[b - 1]):
            b -= 1
        value = value[a:b]
        # column: first raw character that is not a blank, else the closing pipe
        col = None
        for off, raw, _ in parts:
            if raw[0] == "\\":
                col = off
                break
            k = 0
            while k < len(raw) and is_blank(raw[k]):
                k += 1
            if k < len(raw):
                col = off + k
                break
        if col is None:
            col = close
        out.append((n_lead + col + 1, value))
    return out


def escape(value: str) -> str:
    return value.replace("\\", "\\\\").replace("|", "\\|").replace("\n", "\\n")


def raw_cell_at(physical_line: str, column: int):
    """Text of the raw cell starting at 1-based `column` up to the next unescaped pipe,
    unescaped and trimmed (used by the location-slice monitor G5)."""
    parts = []
    for m in _TOK.finditer(physical_line, column - 1):
        t = m.group(0)
        if t == "|":
            break
        parts.append(_UNESC.get(t, t) if t[0] == "\\" else t)
    v = "".join(parts)
    a, b = 0, len(v)
    while a < b and is_blank(v[a]):
        a += 1
    while b > a and is_blank(v[b - 1]):
        b -= 1
    return v[a:b]
