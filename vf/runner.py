"""Check runner: plans shards, runs them in worker processes, merges what the
monitors observed, classifies violations against known_findings.json, writes
evidence/<id>.json and replays/, prints the verdict lines, returns the exit code.

Exit codes: 0 held on everything explored (after KNOWN-FINDING lines),
            1 VIOLATION (not listed in known_findings.json),
            2 INCONCLUSIVE (deciding monitor saw nothing / watchdog / oracle self-check failed).
"""
from __future__ import annotations

import importlib
import json
import os
import subprocess
import sys
import time

from .common import VERIF_DIR, REPO, h64, jsonable, short
from .monitor import Monitor

NPROC = int(os.environ.get("VERIF_NPROC", str(min(16, os.cpu_count() or 4))))
CHECK_IDS = ["C%02d" % i for i in range(1, 20)]


def load_check(cid):
    return importlib.import_module("vf.checks." + cid.lower())


def known_findings():
    path = os.path.join(VERIF_DIR, "known_findings.json")
    if not os.path.exists(path):
        return []
    with open(path, encoding="utf-8") as f:
        return json.load(f)["findings"]


def worker_env():
    env = dict(os.environ)
    env["PYTHONHASHSEED"] = "0"
    env["PYTHONDONTWRITEBYTECODE"] = "1"
    env["PYTHONPATH"] = VERIF_DIR
    env["PYTHONIOENCODING"] = "utf-8:surrogatepass"
    return env


def run_shard_inprocess(cid, spec):
    from . import common
    common.load_repo()
    common.enter_scratch_cwd()
    mod = load_check(cid)
    M = Monitor()
    mod.run_shard(spec, M)
    return M.dump()


def shard_main(cid):
    """Entry point of a worker process: spec on stdin, Monitor dump on stdout."""
    import faulthandler
    faulthandler.enable()
    try:
        import resource
        lim = int(os.environ.get("VERIF_SHARD_MEM_GB", "6")) << 30
        resource.setrlimit(resource.RLIMIT_AS, (lim, lim))     # a runaway loop in the code under test ends in MemoryError, not in swap
    except Exception:
        pass
    spec = json.loads(sys.stdin.read())
    if os.environ.get("VF_REACH_DIR"):
        from . import reach
        from .common import PY_ROOT
        reach.enable(os.path.join(PY_ROOT, "gherkin") + os.sep, os.environ["VF_REACH_DIR"], cid)
    wd = spec.get("_watchdog_s")
    if wd:
        faulthandler.dump_traceback_later(wd, exit=True)
    out = run_shard_inprocess(cid, spec)
    sys.stdout.write("\n@@RESULT@@" + json.dumps(out) + "\n")
    sys.stdout.flush()


def run_shards(cid, specs, timeout_s, M, verbose=False):
    """Run all specs on up to NPROC worker processes; merge into M."""
    pending = list(enumerate(specs))
    running = []
    env = worker_env()
    runpy = os.path.join(VERIF_DIR, "run.py")
    results = 0

    def start(i, spec):
        spec = dict(spec)
        spec["_watchdog_s"] = timeout_s
        p = subprocess.Popen(
            [sys.executable, "-B", runpy, "--shard", cid],
            stdin=subprocess.PIPE, stdout=subprocess.PIPE, stderr=subprocess.PIPE,
            env=env, cwd=VERIF_DIR,
        )
        # feed the spec and close stdin; read output in communicate() later
        p.stdin.write(json.dumps(spec).encode())
        p.stdin.close()
        p.stdin = None
        return {"i": i, "spec": spec, "p": p, "t0": time.time()}

    import selectors
    bufs = {}
    sel = selectors.DefaultSelector()

    def register(r):
        p = r["p"]
        bufs[p.stdout.fileno()] = (r, "out", bytearray())
        bufs[p.stderr.fileno()] = (r, "err", bytearray())
        os.set_blocking(p.stdout.fileno(), False)
        os.set_blocking(p.stderr.fileno(), False)
        sel.register(p.stdout, selectors.EVENT_READ)
        sel.register(p.stderr, selectors.EVENT_READ)
        r["open"] = 2
        r["out"] = bufs[p.stdout.fileno()][2]
        r["err"] = bufs[p.stderr.fileno()][2]

    while pending or running:
        while pending and len(running) < NPROC:
            i, spec = pending.pop(0)
            r = start(i, spec)
            register(r)
            running.append(r)
        events = sel.select(timeout=1.0)
        for key, _ in events:
            fd = key.fileobj.fileno()
            r, which, buf = bufs[fd]
            try:
                data = os.read(fd, 1 << 16)
            except BlockingIOError:
                continue
            if data:
                buf.extend(data)
            else:
                sel.unregister(key.fileobj)
                r["open"] -= 1
        now = time.time()
        for r in list(running):
            p = r["p"]
            if r["open"] == 0:
                rc = p.wait()
                running.remove(r)
                out = r["out"].decode("utf-8", "replace")
                err = r["err"].decode("utf-8", "replace")
                k = out.rfind("@@RESULT@@")
                if rc == 0 and k >= 0:
                    M.merge(json.loads(out[k + len("@@RESULT@@"):]))
                    results += 1
                else:
                    M.inconc("shard %d (%s) of %s ended with rc=%s: %s" % (
                        r["i"], r["spec"].get("family"), cid, rc, err[-1500:]))
                if verbose and err.strip():
                    sys.stderr.write(err)
            elif now - r["t0"] > timeout_s + 30:
                p.kill()
                M.inconc("shard %d (%s) of %s killed by the wall-clock watchdog after %ds" % (
                    r["i"], r["spec"].get("family"), cid, timeout_s))
                for f in (p.stdout, p.stderr):
                    try:
                        sel.unregister(f)
                    except Exception:
                        pass
                p.wait()
                running.remove(r)
    M.count("shards_completed", results)
    return results


def out_dir(name):
    """evidence/ and replays/ live in /verif only for runs against /repo itself; self-test runs
    against a scratch copy (VERIF_REPO) write to VERIF_OUT_DIR (or a temp dir)."""
    if REPO == "/repo" and not os.environ.get("VERIF_OUT_DIR"):
        return os.path.join(VERIF_DIR, name)
    base = os.environ.get("VERIF_OUT_DIR") or os.path.join("/tmp", "vf-out-" + h64(REPO))
    return os.path.join(base, name)


def write_replay(cid, v):
    d = out_dir("replays")
    os.makedirs(d, exist_ok=True)
    digest = h64({"m": v["monitor"], "c": v["case"]})
    path = os.path.join(d, "%s-%s.json" % (cid, digest))
    with open(path, "w", encoding="utf-8") as f:
        json.dump({"property": cid, "monitor": v["monitor"], "mechanism": v.get("mechanism"),
                   "detail": v["detail"], "case": v["case"]}, f, indent=1, ensure_ascii=True)
    return path


def classify_and_report(cid, M):
    """Print KNOWN-FINDING / VIOLATION lines. Returns number of unlisted violations."""
    listed = {f["mechanism"]: f for f in known_findings()
              if f["property"] == cid and f.get("status") == "known"}
    seen_known = {}
    unlisted = []
    for v in M.violations:
        mech = v.get("mechanism")
        if mech and mech in listed:
            seen_known.setdefault(mech, v)
        else:
            unlisted.append(v)
    for mech, v in seen_known.items():
        print("KNOWN-FINDING: property=%s %s: %s [witness %s]" % (
            cid, mech, listed[mech].get("summary", ""), short(v["detail"], 200)))
    for n, v in enumerate(unlisted):
        path = write_replay(cid, v)
        if n < 12:
            print("VIOLATION property=%s replay=%s monitor=%s %s" % (
                cid, path, v["monitor"], short(v["detail"], 300)))
    if len(unlisted) > 12:
        print("... %d further violations written to replays/" % (len(unlisted) - 12))
    return len(unlisted), len(seen_known)


def write_evidence(cid, mod, tier, seed, M, wall, n_unlisted, extra):
    cov = {
        "evaluations": M.cases,
        "distinct_nontrivial": len(M.hashes),
        "rule": getattr(mod, "RULE", ""),
        "samples": M.samples[:6] or ["(no sample recorded)"],
        "monitor_events": dict(sorted(M.counters.items())),
        "histograms": {k: dict(sorted(v.items(), key=lambda kv: -kv[1])[:40]) for k, v in M.hists.items()},
        "coverage_sets": {k: len(v) for k, v in M.sets.items()},
        "maxima": M.maxima,
        "inconclusive": M.inconclusive,
        "violations_observed_including_known": M.violation_count,
    }
    cov.update(extra or {})
    ev = {
        "property_id": cid,
        "tier": tier,
        "seed": seed,
        "level": getattr(mod, "LEVEL", "exploration"),
        "coverage": cov,
        "assumptions": getattr(mod, "ASSUMPTIONS", []),
        "wall_s": round(wall, 2),
        "violations": n_unlisted,
    }
    d = out_dir("evidence")
    os.makedirs(d, exist_ok=True)
    tmp = os.path.join(d, cid + ".json.tmp")
    with open(tmp, "w", encoding="utf-8") as f:
        json.dump(jsonable(ev), f, indent=1, ensure_ascii=True, sort_keys=False)
    os.replace(tmp, os.path.join(d, cid + ".json"))


def run_check(cid, tier, seed, verbose=False):
    t0 = time.time()
    mod = load_check(cid)
    M = Monitor()
    specs = mod.plan(tier, seed)
    timeout_s = getattr(mod, "SHARD_TIMEOUT", {"quick": 900, "thorough": 4 * 3600})[tier]
    run_shards(cid, specs, timeout_s, M, verbose)
    extra = {}
    if hasattr(mod, "finish"):
        extra = mod.finish(M, tier) or {}
    # deciding monitors must have observed something
    for key in getattr(mod, "DECIDING", []):
        if M.counters.get(key, 0) == 0:
            M.inconc("deciding monitor %r observed no event" % key)
    n_unlisted, n_known = classify_and_report(cid, M)
    wall = time.time() - t0
    write_evidence(cid, mod, tier, seed, M, wall, n_unlisted, extra)
    summary = "property=%s tier=%s seed=%d cases=%d distinct=%d violations=%d known=%d wall=%.1fs repo=%s" % (
        cid, tier, seed, M.cases, len(M.hashes), n_unlisted, n_known, wall, REPO)
    if n_unlisted:
        print("RESULT violated " + summary)
        return 1
    if M.inconclusive:
        for r in M.inconclusive:
            print("INCONCLUSIVE property=%s %s" % (cid, r))
        print("RESULT inconclusive " + summary)
        return 2
    print("RESULT held-on-observed " + summary)
    return 0


def run_replay(cid, path):
    from . import common
    common.load_repo()
    common.enter_scratch_cwd()
    mod = load_check(cid)
    with open(path, encoding="utf-8") as f:
        rec = json.load(f)
    M = Monitor()
    mod.replay(rec["case"], M)
    listed = {f["mechanism"] for f in known_findings() if f["property"] == cid and f.get("status") == "known"}
    bad = 0
    for v in M.violations:
        if v.get("mechanism") in listed:
            print("KNOWN-FINDING: property=%s %s [replay]" % (cid, v["mechanism"]))
            continue
        bad += 1
        print("VIOLATION property=%s replay=%s monitor=%s %s" % (cid, path, v["monitor"], short(v["detail"], 600)))
    if not bad:
        print("replay: no violation reproduced (%d cases evaluated)" % M.cases)
    return 1 if bad else 0
