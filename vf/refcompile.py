"""R4 — reference pickle compiler over AST dictionaries, and R5 — canonical id order.
Both are self-checked against the golden corpus by `selfcheck()`; a failing self-check
makes a run inconclusive (the oracle is wrong), never a violation."""
from __future__ import annotations


def ref_ids(doc):
    """AST nodes that own an id, in the canonical draw order shared by the implementations."""
    order = []

    def rows(rs):
        for r in rs:
            order.append(r)

    def step(s):
        if "dataTable" in s:
            rows(s["dataTable"]["rows"])
        order.append(s)

    def tags(ts):
        for t in ts:
            order.append(t)

    def scenario(sc):
        for s in sc["steps"]:
            step(s)
        for ex in sc["examples"]:
            if "tableHeader" in ex:
                order.append(ex["tableHeader"])
            rows(ex["tableBody"])
            tags(ex["tags"])
            order.append(ex)
        tags(sc["tags"])
        order.append(sc)

    def background(b):
        for s in b["steps"]:
            step(s)
        order.append(b)

    def child(c):
        if "background" in c:
            background(c["background"])
        elif "scenario" in c:
            scenario(c["scenario"])
        else:
            r = c["rule"]
            for cc in r["children"]:
                child(cc)
            tags(r["tags"])
            order.append(r)

    f = doc.get("feature")
    if f:
        for c in f["children"]:
            child(c)
        tags(f["tags"])
    return order


def node_kinds(doc):
    """id -> kind ('step','row','tag','scenario','examples','background','rule') of every AST node."""
    kinds = {}

    def rows(rs):
        for r in rs:
            kinds[r["id"]] = "row"

    def steps(ss):
        for s in ss:
            kinds[s["id"]] = "step"
            if "dataTable" in s:
                rows(s["dataTable"]["rows"])

    def tags(ts):
        for t in ts:
            kinds[t["id"]] = "tag"

    def child(c):
        if "background" in c:
            kinds[c["background"]["id"]] = "background"
            steps(c["background"]["steps"])
        elif "scenario" in c:
            sc = c["scenario"]
            kinds[sc["id"]] = "scenario"
            tags(sc["tags"])
            steps(sc["steps"])
            for ex in sc["examples"]:
                kinds[ex["id"]] = "examples"
                tags(ex["tags"])
                if "tableHeader" in ex:
                    kinds[ex["tableHeader"]["id"]] = "header-row"
                for r in ex["tableBody"]:
                    kinds[r["id"]] = "example-row"
        else:
            r = c["rule"]
            kinds[r["id"]] = "rule"
            tags(r["tags"])
            for cc in r["children"]:
                child(cc)

    f = doc.get("feature")
    if f:
        tags(f["tags"])
        for c in f["children"]:
            child(c)
    return kinds


def subst(t, hdr, row):
    for h, v in zip(hdr["cells"], row["cells"]):
        t = t.replace("<" + h["value"] + ">", v["value"])
    return t


def ref_compile(doc, uri, next_id):
    out = []
    f = doc.get("feature")
    if not f:
        return out

    def arg(s, sub):
        if "dataTable" in s:
            return {"dataTable": {"rows": [{"cells": [{"value": sub(c["value"])} for c in r["cells"]]}
                                           for r in s["dataTable"]["rows"]]}}
        if "docString" in s:
            d = {"content": sub(s["docString"]["content"])}
            if "mediaType" in s["docString"]:
                d["mediaType"] = sub(s["docString"]["mediaType"])
            return {"docString": d}
        return None

    def emit(sc, inh, bg):
        def build(name, own_sub, extra_ids, tgs):
            steps = []
            last = "Unknown"
            if sc["steps"]:
                for s, is_bg in [(x, True) for x in bg] + [(x, False) for x in sc["steps"]]:
                    last = last if s["keywordType"] == "Conjunction" else s["keywordType"]
                    sub = (lambda t: t) if is_bg else own_sub
                    ps = {"astNodeIds": [s["id"]] + ([] if is_bg else extra_ids), "id": next_id(),
                          "type": last, "text": sub(s["text"])}
                    a = arg(s, sub)
                    if a:
                        ps["argument"] = a
                    steps.append(ps)
            out.append({"astNodeIds": [sc["id"]] + extra_ids, "id": next_id(),
                        "tags": [{"astNodeId": t["id"], "name": t["name"]} for t in tgs],
                        "name": name, "language": f["language"], "steps": steps, "uri": uri})

        if not sc["examples"]:
            build(sc["name"], lambda t: t, [], inh + sc["tags"])
        else:
            for ex in sc["examples"]:
                if "tableHeader" not in ex:
                    continue
                for row in ex["tableBody"]:
                    sub = lambda t, ex=ex, row=row: subst(t, ex["tableHeader"], row)
                    build(sub(sc["name"]), sub, [row["id"]], inh + sc["tags"] + ex["tags"])

    bg = []
    for c in f["children"]:
        if "background" in c:
            bg = bg + c["background"]["steps"]
        elif "scenario" in c:
            emit(c["scenario"], f["tags"], bg)
        else:
            r = c["rule"]
            rbg = list(bg)
            for cc in r["children"]:
                if "background" in cc:
                    rbg = rbg + cc["background"]["steps"]
                else:
                    emit(cc["scenario"], f["tags"] + r["tags"], rbg)
    return out


def counter_from(start):
    k = [start]

    def nid():
        k[0] += 1
        return str(k[0] - 1)
    return nid


def selfcheck():
    """The oracles must reproduce every golden .ast/.pickles file.  -> (n_ok, problems)"""
    from . import corpus
    problems = []
    ok = 0
    for g in corpus.good():
        if not g["ast"] or g["pickles"] is None:
            continue
        ast = g["ast"][0]["gherkinDocument"]
        exp = [e["pickle"] for e in g["pickles"]]
        order = ref_ids(ast)
        ids = [n["id"] for n in order]
        if ids != [str(i) for i in range(len(ids))]:
            problems.append(("R5 id order", g["path"]))
            continue
        got = ref_compile(ast, ast["uri"], counter_from(len(ids)))
        if got != exp:
            problems.append(("R4 pickles", g["path"]))
            continue
        ok += 1
    return ok, problems
