"""Running the real code under the probes, and the always-on monitors G1..G13 that are
evaluated over what the probes recorded (DESIGN.md section 6)."""
from __future__ import annotations

import copy
import os
import re
import traceback

from . import common, probe, refcells, grammar as grammar_mod, siblings

common.load_repo()

from gherkin.parser import Parser                                   # noqa: E402
from gherkin.ast_builder import AstBuilder                          # noqa: E402
from gherkin.token_matcher import TokenMatcher                      # noqa: E402
from gherkin.pickles.compiler import Compiler                       # noqa: E402
from gherkin.stream.id_generator import IdGenerator                 # noqa: E402
from gherkin.stream.gherkin_events import GherkinEvents             # noqa: E402
from gherkin.errors import (ParserError, ParserException,           # noqa: E402
                            CompositeParserException)

MATCH_BUDGET = 36
F1 = "F1-source-text-probed-as-path"

_G = None
_SIB = None


def grammar():
    global _G
    if _G is None:
        _G = grammar_mod.Grammar()
    return _G


def sibling_table():
    """(table, report, expected_lists, la_targets)"""
    global _SIB
    if _SIB is None:
        t, rep = siblings.consensus()
        lists = {n: ", ".join(v[1]) for n, v in t.items()}
        _SIB = (t, rep, lists, siblings.lookahead_targets())
    return _SIB


class CpuBudgetExceeded(BaseException):
    """Raised inside the code under test when one call used more CPU time than any linear-time
    implementation needs by orders of magnitude (virtual time of this process, not wall-clock)."""


class cpu_budget:
    """with cpu_budget(seconds): ...   Aborts the block with CpuBudgetExceeded when it has consumed that much
    *CPU time* (ITIMER_VIRTUAL: user time of this process — independent of machine load).  Only armed in the main
    thread; nested use keeps the outer timer."""

    def __init__(self, seconds):
        self.seconds = seconds
        self.armed = False

    def __enter__(self):
        import signal
        import threading
        if threading.current_thread() is threading.main_thread() and signal.getitimer(signal.ITIMER_VIRTUAL)[0] == 0:
            def on_alarm(signum, frame):
                raise CpuBudgetExceeded("more than %d s of CPU time" % self.seconds)
            self.old = signal.signal(signal.SIGVTALRM, on_alarm)
            signal.setitimer(signal.ITIMER_VIRTUAL, self.seconds)
            self.armed = True
        return self

    def __exit__(self, *a):
        if self.armed:
            import signal
            signal.setitimer(signal.ITIMER_VIRTUAL, 0)
            signal.signal(signal.SIGVTALRM, self.old)
        return False


def budget_for(source):
    """CPU seconds allowed for one call on this input: 20 s + 1 s per 2000 characters (a linear implementation needs
    well under a second for typical inputs and a few seconds for megabyte inputs, probes included)."""
    n = len(source) if isinstance(source, str) else 0
    return 20 + n // 2000


def physical_lines(text):
    """Lines as the property counts them: they end at line feeds only."""
    if text == "":
        return []
    ls = text.split("\n")
    if ls[-1] == "":
        ls.pop()
    return ls


class Obs:
    """One observed execution of Parser.parse."""
    __slots__ = ("source", "stop", "status", "ast", "errors", "exc", "exc_origin", "log", "opened",
                 "idgen", "ids_before", "tb")

    def err_messages(self):
        return [e["message"] for e in self.errors]


def _origin(e):
    tb = traceback.extract_tb(e.__traceback__)
    for fr in reversed(tb):
        if "/gherkin/" in fr.filename.replace(os.sep, "/"):
            return "%s:%s" % (os.path.basename(fr.filename), fr.name)
    return "%s:%s" % (os.path.basename(tb[-1].filename), tb[-1].name) if tb else "?"


def err_record(e):
    loc = getattr(e, "location", None)
    return {"type": type(e).__name__, "message": str(e),
            "line": loc.get("line") if isinstance(loc, dict) else None,
            "column": loc.get("column") if isinstance(loc, dict) else None,
            "location": dict(loc) if isinstance(loc, dict) else loc}


def file_loadable(text):
    """Can this text be handed over as a file without the I/O layer changing it?  (UTF-8 encodable, carriage returns only
    in CRLF pairs — text mode translates a lone CR — and not itself the name of something on disk.)"""
    if not isinstance(text, str) or "\r" in text.replace("\r\n", "") or len(text) < 300 and os.path.exists(text):
        return False
    try:
        text.encode("utf8")
    except UnicodeEncodeError:
        return False
    return True


def parse_observed(source, stop=False, matcher=None, parser=None, idgen=None, builder=None, as_scanner=False, as_file=False):
    """Run the real Parser.parse on `source` under the probes.  With as_scanner the text is handed over
    as a TokenScanner object (the other documented input form) instead of a string; with as_file (and a text that
    file_loadable() accepts) it is written to a file first and handed over as TokenScanner(path), as the scripts do."""
    o = Obs()
    o.source = source
    o.stop = stop
    o.ast = None
    o.errors = []
    o.exc = None
    o.exc_origin = None
    o.tb = None
    if parser is None:
        idgen = idgen or IdGenerator()
        parser = Parser(builder if builder is not None else AstBuilder(idgen))
    o.idgen = idgen
    o.ids_before = getattr(idgen, "_id_counter", None)
    parser.stop_at_first_error = stop
    with probe.auditing() as opened, probe.observing() as obs, cpu_budget(budget_for(source)):
        try:
            arg = source
            tmp_path = None
            if as_file and file_loadable(source):
                from gherkin.token_scanner import TokenScanner
                tmp_path = os.path.abspath("vf-observed-%d.feature" % os.getpid())
                if len(source) % 3 == 0:
                    # a path longer than 255 characters (every component shorter than that): still a path
                    long_dir = os.path.join(os.getcwd(), "d" * 120, "e" * 120, "f" * 120)
                    try:
                        os.makedirs(long_dir, exist_ok=True)
                        tmp_path = os.path.join(long_dir, "vf-observed-%d.feature" % os.getpid())
                    except OSError:
                        pass
                with open(tmp_path, "wb") as fh:
                    fh.write(source.encode("utf8"))
                arg = TokenScanner(tmp_path)
            elif as_scanner:
                from gherkin.token_scanner import TokenScanner
                arg = TokenScanner(source)
            o.ast = parser.parse(arg, matcher) if matcher is not None else parser.parse(arg)
            o.status = "ok"
        except CompositeParserException as e:
            o.exc = e
            errs = getattr(e, "errors", None)
            if isinstance(errs, (list, tuple)):
                o.status = "errors"
                o.errors = [err_record(x) for x in errs]
            else:                       # the composite does not carry its list of errors: not a usable outcome
                o.status = "crash"
                o.exc_origin = _origin(e)
                o.tb = "CompositeParserException without a list in .errors (%r)" % (errs,)
        except ParserError as e:
            o.status = "single"
            o.exc = e
            o.errors = [err_record(e)]
        except Exception as e:          # anything else escaping is what C01 forbids
            o.status = "crash"
            o.exc = e
            o.exc_origin = _origin(e)
            o.tb = traceback.format_exc()[-1500:]
        except probe.WorkBoundExceeded as e:   # "nothing hangs", logical form: a work bound far above linear was exceeded
            o.status = "crash"
            o.exc = e
            o.exc_origin = _origin(e)
            o.tb = "logical work bound exceeded: %s\n%s" % (e, traceback.format_exc()[-1000:])
        except CpuBudgetExceeded as e:  # "nothing hangs": the call did not finish within a CPU budget far above linear work
            o.status = "crash"
            o.exc = e
            o.exc_origin = _origin(e)
            o.tb = "CPU budget of %d s exceeded; stack at that moment:\n%s" % (budget_for(source), traceback.format_exc()[-1200:])
    if tmp_path is not None:
        try:
            getattr(arg, "io").close()
        except Exception:
            pass
        try:
            os.remove(tmp_path)
        except OSError:
            pass
        opened = [p for p in opened if p != tmp_path]
    o.opened = list(opened)
    o.log = obs.logs[-1] if obs.logs else None
    return o


def f1_mechanism(o):
    """The source text was opened as a filesystem path (finding F1).  Decided by what happened, not by
    where in the code: the open() audit hook saw exactly the source text as the path."""
    if isinstance(o.source, str) and o.source in o.opened:
        return F1
    return None


def f1_from_opened(text, opened):
    return F1 if isinstance(text, str) and text in opened else None


# --------------------------------------------------------------------------- monitors
# Each monitor returns a list of (monitor id, detail) pairs; empty list = nothing to report.

def g1_typed_outcome(o):
    out = []
    if o.status == "crash":
        out.append(("G1", {"what": "CompositeParserException does not carry the list of its errors" if isinstance(o.exc, CompositeParserException)
                           else "exception other than ParserError escaped Parser.parse",
                           "type": type(o.exc).__name__, "repr": repr(o.exc)[:200], "origin": o.exc_origin,
                           "stop": o.stop}))
        return out
    if o.status == "ok":
        if not isinstance(o.ast, dict):
            out.append(("G1", {"what": "parse returned a non-dict", "value": repr(o.ast)[:100]}))
        return out
    exc = o.exc
    errs = exc.errors if isinstance(exc, CompositeParserException) else [exc]
    if not (1 <= len(errs) <= 11):
        out.append(("G1", {"what": "error count outside 1..11", "count": len(errs)}))
    for e in errs:
        loc = getattr(e, "location", None)
        if not isinstance(e, ParserException) or not isinstance(loc, dict) or \
                not isinstance(loc.get("line"), int) or isinstance(loc.get("line"), bool) or loc["line"] < 1:
            out.append(("G1", {"what": "error without an integer source line", "type": type(e).__name__,
                               "location": repr(loc), "message": str(e)[:200]}))
        elif "column" in loc and (not isinstance(loc["column"], int) or loc["column"] < 0):
            out.append(("G1", {"what": "error with a non-integer column", "location": repr(loc)}))
    return out


def g2_match_budget(o):
    log = o.log
    if log is None or not log.match_calls:
        return []
    line, n = max(log.match_calls.items(), key=lambda kv: kv[1])
    if n > MATCH_BUDGET:
        return [("G2", {"what": "matcher calls on one line exceed the budget", "line": line, "calls": n,
                        "budget": MATCH_BUDGET})]
    return []


def g3_line_accounting(o):
    """TokenScanner.read hands out 1,2,3.. each once then EOF once; build receives strictly
    increasing lines; accepted => every line once then one EOF; rejected => every processed
    line is delivered or reported unexpected, exactly one of the two."""
    log = o.log
    out = []
    if log is None:
        return out
    N = len(physical_lines(o.source)) if isinstance(o.source, str) and log.scanner_kind != "file" else None
    # scanner side
    by_scanner = {}
    for sid, line, eof in log.reads:
        by_scanner.setdefault(sid, []).append((line, eof))
    for sid, rs in by_scanner.items():
        lines = [l for l, _ in rs]
        if lines != list(range(1, len(lines) + 1)):
            out.append(("G3", {"what": "scanner did not hand out lines 1,2,3,.. once each", "lines": lines[:50]}))
        eofs = [i for i, (_, e) in enumerate(rs) if e]
        if eofs and eofs[0] != len(rs) - 1:
            out.append(("G3", {"what": "scanner was read again after EOF", "reads": len(rs), "first_eof": eofs[0]}))
        if N is not None and eofs and rs[eofs[0]][0] != N + 1:
            out.append(("G3", {"what": "EOF token not at line N+1", "N": N, "eof_line": rs[eofs[0]][0]}))
    if N is None:
        # scanner object / file input: the scanner's own EOF token tells the number of lines
        eof_lines = [l for _, l, e in log.reads if e]
        if eof_lines:
            N = eof_lines[0] - 1
    # builder side
    delivered = [l for l, _ in log.builds]
    nums = [l for l in delivered if l != "EOF"]
    if any(b <= a for a, b in zip(nums, nums[1:])):
        out.append(("G3", {"what": "builder received lines out of order or twice", "delivered": delivered[:60]}))
    if "EOF" in delivered and (delivered.index("EOF") != len(delivered) - 1 or delivered.count("EOF") != 1):
        out.append(("G3", {"what": "EOF token not delivered exactly once at the end", "delivered": delivered[-10:]}))
    if o.status == "ok":
        exp = (list(range(1, N + 1)) if N is not None else nums) + ["EOF"]
        if delivered != exp:
            out.append(("G3", {"what": "accepted document: delivered lines != 1..N, EOF", "N": N,
                               "delivered": delivered[:60], "missing": sorted(set(exp) - set(delivered), key=str)[:20]}))
    else:
        # every completed step handled one line: delivered xor reported as unexpected
        unexpected = set()
        for msg in log.errors_added:
            m = re.match(r"\((\d+):(\d+)\): (expected: .*, got '|unexpected end of file, expected: )", msg, re.S)
            if m:
                unexpected.add(int(m.group(1)))
        steps = [t for t in log.transitions if t[3] is not None]
        dl = set(nums)
        if "EOF" in delivered and N is not None:
            dl.add(N + 1)
        seen = []
        for k, (state, kind, la, new) in enumerate(steps):
            line = k + 1        # the k-th completed step handles line k+1 (checked against reads above)
            seen.append(line)
            d, u = (line in dl), (line in unexpected)
            if d == u:
                out.append(("G3", {"what": "line %s" % ("both delivered and reported unexpected" if d else
                                                          "neither delivered nor reported unexpected"),
                                   "line": line, "state": state}))
                break
    return out


def g4_derivation(o):
    """Builder events of the parse are a derivation of gherkin.berp (accepted: complete;
    rejected: every event allowed where it occurs)."""
    log = o.log
    if log is None or not log.events:
        return []
    mon = grammar_mod.DerivationMonitor(grammar())
    evs = log.events
    if o.status != "ok" and evs and evs[-1] == ("end", "GherkinDocument"):
        evs = evs[:-1]
    for ev in evs:
        mon.feed((ev[0], ev[1]))
        if not mon.ok:
            return [("G4", {"what": "builder events are not a derivation of the grammar", "why": mon.why,
                            "events_before": [list(e) for e in evs[max(0, mon.n - 8):mon.n]]})]
    if o.status == "ok" and not mon.accepted():
        return [("G4", {"what": "accepted parse but the event trace is not a complete derivation",
                        "last_events": [list(e) for e in evs[-8:]]})]
    return []


def iter_nodes(ast):
    """Yield (kind, node) for every located AST node."""
    for c in ast.get("comments", []):
        yield "comment", c
    f = ast.get("feature")
    if not f:
        return
    yield "feature", f

    def tags(ts):
        for t in ts:
            yield "tag", t

    def steps(ss):
        for s in ss:
            yield "step", s
            if "dataTable" in s:
                yield "dataTable", s["dataTable"]
                for r in s["dataTable"]["rows"]:
                    yield "row", r
                    for c in r["cells"]:
                        yield "cell", c
            if "docString" in s:
                yield "docString", s["docString"]

    def child(c):
        if "background" in c:
            yield "background", c["background"]
            yield from steps(c["background"]["steps"])
        elif "scenario" in c:
            sc = c["scenario"]
            yield "scenario", sc
            yield from tags(sc["tags"])
            yield from steps(sc["steps"])
            for ex in sc["examples"]:
                yield "examples", ex
                yield from tags(ex["tags"])
                rows = ([ex["tableHeader"]] if "tableHeader" in ex else []) + ex["tableBody"]
                for r in rows:
                    yield "row", r
                    for cc in r["cells"]:
                        yield "cell", cc
        elif "rule" in c:
            r = c["rule"]
            yield "rule", r
            yield from tags(r["tags"])
            for cc in r["children"]:
                yield from child(cc)

    yield from tags(f["tags"])
    for c in f["children"]:
        yield from child(c)


def g5_location_slices(ast, source, M=None):
    """Reading the source at a reported location gives back the element."""
    out = []
    lines = physical_lines(source)
    n = 0
    for kind, node in iter_nodes(ast):
        loc = node.get("location")
        n += 1
        if not isinstance(loc, dict) or not isinstance(loc.get("line"), int) or not isinstance(loc.get("column"), int):
            out.append(("G5", {"what": "node without integer line/column", "kind": kind, "location": repr(loc)}))
            continue
        l, c = loc["line"], loc["column"]
        if not (1 <= l <= len(lines)) or c < 1:
            out.append(("G5", {"what": "location outside the document", "kind": kind, "location": loc}))
            continue
        line = lines[l - 1]
        at = c - 1                     # (no slicing: documents may have very long lines)
        ok = True
        if kind in ("feature", "rule", "background", "scenario", "examples"):
            ok = line.startswith(node["keyword"] + ":", at)
        elif kind == "step":
            ok = line.startswith(node["keyword"], at)
        elif kind == "tag":
            ok = line.startswith(node["name"], at)
        elif kind in ("row", "dataTable"):
            ok = line.startswith("|", at)
        elif kind == "cell":
            if node["value"] == "":
                ok = line.startswith("|", at)
            else:
                ok = at < len(line) and not refcells.is_blank(line[at]) and refcells.raw_cell_at(line, c) == node["value"]
        elif kind == "docString":
            ok = line.startswith(node["delimiter"], at)
        elif kind == "comment":
            ok = c == 1 and node["text"] == line.rstrip("\r")
        if ok and kind in ("feature", "rule", "background", "scenario", "examples", "step", "row", "dataTable", "docString"):
            # keyword / row / delimiter elements start at the first non-blank character of their line
            if at > len(line) - len(line.lstrip()):
                ok = False
        if not ok:
            out.append(("G5", {"what": "source at the reported location does not give back the element",
                               "kind": kind, "location": loc, "line_text": line[:120],
                               "element": {k: v for k, v in node.items() if k in ("keyword", "name", "value", "delimiter", "text")}}))
            if len(out) > 3:
                break
    if M is not None:
        M.count("G5.locations_sliced", n)
    return out


_UNEXP = re.compile(r"^\((\d+):(\d+)\): expected: (.*?), got '(.*)'$", re.S)
_UEOF = re.compile(r"^\((\d+):(\d+)\): unexpected end of file, expected: (.*)$", re.S)


def g8_error_list(o):
    """Error list well-formed (C14 / C01): unique messages, message begins with its own
    position, every error lies within the document, quoted line is the trimmed physical
    line, expected list is one of the 42 lists every sibling prints."""
    out = []
    if o.status not in ("errors", "single"):
        return out
    lines = physical_lines(o.source) if isinstance(o.source, str) else None
    if o.log is not None and o.log.scanner_kind == "file":
        lines = None
    msgs = [e["message"] for e in o.errors]
    if len(set(msgs)) != len(msgs):
        out.append(("G8", {"what": "identical message reported twice", "messages": msgs[:12]}))
    _, _, lists, _ = sibling_table()
    valid_lists = set(lists.values())
    for e in o.errors:
        line, col, msg = e["line"], e["column"], e["message"]
        if not isinstance(line, int):
            continue  # G1 reports it
        prefix = "(%d:%d): " % (line, col if col is not None else 0)
        if not msg.startswith(prefix):
            out.append(("G8", {"what": "message does not start with its own (line:column) position",
                               "location": e["location"], "message": msg[:160]}))
        if lines is not None and not (1 <= line <= len(lines) + 1):
            out.append(("G8", {"what": "error location outside the document", "line": line, "N": len(lines)}))
            continue
        m = _UNEXP.match(msg)
        if m:
            if m.group(3) not in valid_lists:
                out.append(("G8", {"what": "expected-token list is not one the sibling parsers print",
                                   "list": m.group(3)}))
            if lines is not None and line <= len(lines):
                phys = lines[line - 1]
                if m.group(4) != phys.strip():
                    out.append(("G8", {"what": "quoted text is not the trimmed physical line",
                                       "quoted": m.group(4)[:120], "line_text": phys[:120]}))
                exp_col = len(phys) - len(phys.lstrip()) + 1
                if col != exp_col:
                    out.append(("G8", {"what": "unexpected-line error column is not the first non-blank character",
                                       "column": col, "expected": exp_col, "line_text": phys[:120]}))
            continue
        m = _UEOF.match(msg)
        if m:
            if m.group(3) not in valid_lists:
                out.append(("G8", {"what": "expected-token list (EOF form) is not one the sibling parsers print",
                                   "list": m.group(3)}))
            if lines is not None and line != len(lines) + 1:
                out.append(("G8", {"what": "end-of-file error not one line past the last", "line": line,
                                   "N": len(lines)}))
    return out


def g13_fresh_state(o, matcher=None):
    """State right after the resets at the start of a parse equals that of fresh instances."""
    log = o.log
    out = []
    if log is None or log.matcher_state_at_start is None:
        return out
    ms = log.matcher_state_at_start
    if ms.get("default") is None:
        return out          # the matcher no longer exposes its default dialect under the known name: nothing to compare with
    try:
        if matcher is not None:
            fresh = probe.matcher_state(type(matcher)(ms["default"]))
        else:
            fresh = probe.matcher_state(TokenMatcher(ms["default"]))
    except Exception:
        return out
    if ms != fresh:
        diff = {k: (ms.get(k), fresh.get(k)) for k in set(ms) | set(fresh) if ms.get(k) != fresh.get(k)}
        out.append(("G13", {"what": "matcher state at parse start differs from a fresh matcher", "diff": common.short(diff, 500)}))
    bs = log.builder_state_at_start
    if bs:
        if bs["queue"] != 0 or bs["errors"] != 0:
            out.append(("G13", {"what": "parse started with a non-empty queue or error list", "state": bs}))
        if "stack" in bs and (bs["stack"] != ["None", "GherkinDocument"] or bs["items"] != [0, 0] or bs["comments"] != 0):
            out.append(("G13", {"what": "builder state at parse start differs from a fresh builder", "state": bs}))
    return out


def queue_discipline(o):
    log = o.log
    if log is None:
        return []
    return [("G3q", {"what": x[1]}) for x in log.opaque if x[0] == "queue-discipline"]


# --------------------------------------------------------------------------- compile / stream

def compile_observed(ast, uri="uri.feature", idgen=None):
    """Compiler.compile on a document (with uri attached, as the stream layer does).
    -> (status, pickles | exception record, mutated?, ids drawn)"""
    doc = dict(ast)
    doc["uri"] = uri
    before = copy.deepcopy(doc)
    comp = Compiler(idgen or IdGenerator())
    try:
        with cpu_budget(30):
            pickles = comp.compile(doc)
        status = "ok"
        res = pickles
    except (Exception, CpuBudgetExceeded, probe.WorkBoundExceeded) as e:
        status = "crash"
        res = {"type": type(e).__name__, "repr": repr(e)[:200], "origin": _origin(e)}
    mutated = doc != before
    return status, res, mutated, doc


def enum_observed(data, uri="uri.feature", options=(True, True, True), events=None, stop=None):
    """GherkinEvents.enum on one source. -> (status, envelopes | exception record, opened paths)
    stop=True/False sets stop_at_first_error on the stream's parser (the stream handles both error forms)."""
    ge = events or GherkinEvents(GherkinEvents.Options(*options))
    if stop is not None:
        ge.parser.stop_at_first_error = stop
    src = {"source": {"uri": uri, "data": data, "mediaType": "text/x.cucumber.gherkin+plain"}}
    with probe.auditing() as opened, probe.observing():
        try:
            with cpu_budget(budget_for(data) + 40):
                envs = list(ge.enum(src))
            return "ok", envs, list(opened), src
        except (Exception, CpuBudgetExceeded, probe.WorkBoundExceeded) as e:
            return "crash", {"type": type(e).__name__, "repr": repr(e)[:200], "origin": _origin(e)}, list(opened), src


def transition_keys(log):
    """Identify which of the table's transitions each step of a parse took: (state, index)."""
    table, _, _, _ = sibling_table()
    keys = []
    for state, kind, la, new in log.transitions:
        if kind == "ERR" or new is None or state not in table:
            continue
        las = list(la)
        for idx, (k, guard, ev, to) in enumerate(table[state][0]):
            if k != kind:
                continue
            if guard is None:
                keys.append("%d.%d" % (state, idx))
                break
            if las:
                which, res = las.pop(0)
                if res:
                    keys.append("%d.%d" % (state, idx))
                    break
    return keys


def isolated_stream(sources, options=(False, True, True), fresh_per_source=False, hashseed="0", timeout=300):
    """The sources through one GherkinEvents stream in a FRESH interpreter (vf/iso_worker.py): nothing this process has done
    before can influence the result.  -> list (per source) of envelope lists, or None when the worker failed."""
    import json
    import subprocess
    import sys
    from .common import PY_ROOT, VERIF_DIR
    spec = {"py_root": PY_ROOT, "sources": [{"uri": u, "data": d} for u, d in sources], "options": list(options), "fresh_per_source": fresh_per_source}
    env = dict(os.environ, PYTHONHASHSEED=str(hashseed), PYTHONDONTWRITEBYTECODE="1", PYTHONIOENCODING="utf-8:surrogatepass")
    env.pop("PYTHONPATH", None)
    p = subprocess.run([sys.executable, "-B", os.path.join(VERIF_DIR, "vf", "iso_worker.py")], input=json.dumps(spec).encode("utf-8", "surrogatepass"),
                       capture_output=True, env=env, timeout=timeout)
    if p.returncode != 0:
        return None
    try:
        return json.loads(p.stdout.decode("utf-8", "surrogatepass"))
    except Exception:
        return None
