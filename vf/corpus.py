"""R8 — the shared acceptance corpus (/repo/testdata), not part of the pytest run."""
from __future__ import annotations

import glob
import json
import os

from .common import TESTDATA


def _read(path):
    with open(path, encoding="utf8", newline="") as f:
        return f.read()


def _ndjson(path):
    if not os.path.exists(path):
        return None
    return [json.loads(l) for l in _read(path).split("\n") if l.strip()]


def good():
    """[(path, text, tokens listing|None, ast envelopes, pickle envelopes, source envelopes)]"""
    out = []
    for f in sorted(glob.glob(os.path.join(TESTDATA, "good", "*.feature"))):
        tok = _read(f + ".tokens") if os.path.exists(f + ".tokens") else None
        out.append({"path": f, "text": _read(f), "tokens": tok, "ast": _ndjson(f + ".ast.ndjson"),
                    "pickles": _ndjson(f + ".pickles.ndjson"), "source": _ndjson(f + ".source.ndjson")})
    return out


def bad():
    out = []
    for f in sorted(glob.glob(os.path.join(TESTDATA, "bad", "*.feature"))):
        out.append({"path": f, "text": _read(f), "errors": _ndjson(f + ".errors.ndjson")})
    return out


def rel(path):
    """uri as the reference files spell it (relative to the implementation directory)."""
    return "../testdata/" + os.path.relpath(path, TESTDATA).replace(os.sep, "/")
