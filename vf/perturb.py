"""Pool of state-perturbing documents (W8): each leaves parser/matcher/builder state behind
that a later parse must not see."""

POOL = {
    "good_en": "Feature: a\n  Scenario: s\n    Given x\n",
    "hdr_fr": "# language: fr\nFonctionnalité: b\n  Scénario: s\n    Soit y\n",
    "hdr_no_crlf": "#language:no\r\nEgenskap: c\r\n  Scenario: s\r\n    Gitt z\r\n",
    "open_doc": 'Feature: d\n  Scenario: s\n    Given x\n      """\n      inside\n',
    "open_bt": "Feature: d\n  Scenario: s\n    Given x\n   ```\n   inside\n",
    "cap": "Feature: e\n  Scenario: s\n    Given x\n    | a |\n" + "".join("junk %d\n" % i for i in range(15)),
    "badlang": "#language: zz\nFeature: f\n",
    "ragged": "Feature: g\n  Scenario: s\n    Given x\n    | a | b |\n    | c |\n",
    "badtag_la": "Feature: h\n  Scenario: s\n    Given x\n  @ok\n  @bad tag\n  Scenario: t\n",
    "tag_eof": "Feature: i\n  Scenario: s\n    Given x\n  @t1\n  # c\n\n  @t2\n",
    "comments": "# c1\nFeature: j\n  # c2\n  Scenario: s\n  # c3\n    Given x\n # c4\n",
    "outline": 'Feature: k\n  Background:\n    Given bg\n  Scenario Outline: o <a>\n    Given <a>\n      | <a> |\n    When w\n      """<a>\n      <a>\n      """\n  @e\n  Examples:\n    | a |\n    | 1 |\n    | 2 |\n',
    "empty": "",
    "only_comment": "# just a comment\n",
    "rule": "Feature: l\n  Rule: r\n    Background:\n      Given b\n    Example: e\n      Then t\n",
    "garbage": "not gherkin\n@@@\n|||\n",
    "desc_indented": "Feature: m\n    indented description\n      more\n\n  Scenario: s\n      scenario description\n    Given x\n",
    "open_doc_in_fr": '# language: fr\nFonctionnalité: n\n  Scénario: s\n    Soit x\n        ```\n        dedans\n',
    "stop_mid_table": "Feature: o\n  Scenario Outline: s\n    Given <a>\n    Examples:\n      | a |\n      | 1 | 2 |\n  junk\n",
    "feature_tags_only": "@only @tags\n",
    # parses that are abandoned while look-ahead tokens are still buffered
    "ragged_then_tags": "Feature: p\n  Scenario: s\n    Given x\n    | a | b |\n    | c |\n  @t\n  # c\n  Scenario: t\n    Given y\n",
    "cap_inside_lookahead": "Feature: q\n  Scenario: s\n    Given x\n    | a |\n" + "".join("junk %d\n" % i for i in range(10)) + "  @ok\n\n  @bad tag\n  # c\n  Scenario: t\n",
    "cap_at_ragged_then_tags": "Feature: r\n  Scenario: s\n    Given x\n    | a |\n" + "".join("junk %d\n" % i for i in range(10)) + "    Given z\n    | a | b |\n    | c |\n  @t\n  Scenario: u\n",
    "hdr_en_redundant": "# language: en\nFeature: s\n  Scenario: s\n    Given a\n    And b\n    * c\n",
}
NAMES = list(POOL)
